#!/usr/bin/env python3
"""Regenerates MANIFEST.json from harness/registry.json + manifest_meta.json."""
import json, os
here = os.path.dirname(os.path.abspath(__file__))
reg = json.load(open(os.path.join(here, 'harness/registry.json')))
meta = json.load(open(os.path.join(here, 'manifest_meta.json')))
props = [json.loads(l) for l in open(os.path.join(here, 'properties.jsonl'))]
checks, na = [], []
for p in props:
    pid = p['id']
    if pid in reg and pid in meta['checks']:
        m = meta['checks'][pid]
        tiers = {t for h in reg[pid]['harnesses'] for t in h['tiers']}
        c = {
            "property_id": pid,
            "quick_cmd": "./check %s quick" % pid,
            "evidence_file": "/verif/evidence/%s.json" % pid,
            "replay_cmd_template": "./replay %s {path}" % pid,
            "engine": "gosymx",
            "level_claimed": {"category": reg[pid].get('level', 'model_checking'), "text": m['level_text'], "design_ref": m.get('design_ref', 'DESIGN.md section 4, ' + pid)},
            "level_note": m['level_note'],
            "technique": m.get('technique', 'bounded symbolic execution of the go/ssa form of the real code; obligations discharged by SMT (z3/cvc5) over bit-vectors; counterexamples replayed natively'),
        }
        if 'thorough' in tiers:
            c["thorough_cmd"] = "./check %s thorough" % pid
        checks.append(c)
    else:
        na.append({"property_id": pid, "reason": meta['not_applicable'].get(pid, "no check registered yet (framework under construction)")})
man = {
    "version": 1,
    "setup_cmd": "./setup.sh",
    "hooks": {"guard": "verif", "enable": "no source hooks: harnesses are injected as overlay files (go/packages Overlay for the symbolic run, go test -overlay for native replay); build tag gosymx selects the symbolic twin of the harness runtime", "baseline_off_cmd": "cd /repo && go test -vet=off -count=1 ./...", "source_commits": [], "add_only": True},
    "engines": [{"name": "gosymx", "path": "/verif/engine", "serves_properties": [c['property_id'] for c in checks], "kind_free_text": "symbolic interpreter over go/ssa (fork of x/tools ssa/interp) with bit-vector terms, re-execution DFS, z3/cvc5 back ends, native replay of counterexamples"}],
    "checks": checks,
    "not_applicable": na,
    "notes": meta.get('notes', ''),
}
json.dump(man, open(os.path.join(here, 'MANIFEST.json'), 'w'), indent=1)
print("MANIFEST.json: %d checks, %d not_applicable" % (len(checks), len(na)))
