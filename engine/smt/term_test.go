package smt

import (
	"math/rand"
	"testing"
)

// random terms built through the simplifying constructors must evaluate like a direct
// computation on the model values (guards the sum normal form and the ite rewrites)
func TestSimplifierAgainstEvaluation(t *testing.T) {
	r := rand.New(rand.NewSource(1))
	for iter := 0; iter < 3000; iter++ {
		c := NewCtx()
		w := []uint8{8, 64}[r.Intn(2)]
		m := Model{}
		nv := 4
		vars := make([]*Term, nv)
		vals := make([]uint64, nv)
		for i := range vars {
			vars[i] = c.Var(string(rune('a'+i)), w)
			vals[i] = r.Uint64() & mask(w)
			if r.Intn(3) == 0 {
				vals[i] = uint64(r.Intn(3))
			}
			m[vars[i].Name] = vals[i]
		}
		bools := make([]*Term, 6)
		bvals := make([]bool, 6)
		for i := range bools {
			bools[i] = c.Var(string(rune('p'+i)), 0)
			bvals[i] = r.Intn(2) == 1
			if bvals[i] {
				m[bools[i].Name] = 1
			} else {
				m[bools[i].Name] = 0
			}
		}
		// a counter incremented under guards, in two different orders, plus constants
		type step struct {
			g   int
			add int // index into vars, or -1 for constant 1
		}
		var steps []step
		for k := 0; k < 6; k++ {
			steps = append(steps, step{k, r.Intn(nv+1) - 1}) // one guard per step, as in counters incremented under distinct conditions
		}
		build := func(order []int) (*Term, uint64) {
			acc := c.BV(0, w)
			want := uint64(0)
			for _, k := range order {
				st := steps[k]
				var inc *Term
				var iv uint64
				if st.add < 0 {
					inc, iv = c.BV(1, w), 1
				} else {
					inc, iv = vars[st.add], vals[st.add]
				}
				acc = c.Ite(bools[st.g], c.Bin(KAdd, acc, inc), acc)
				if bvals[st.g] {
					want = (want + iv) & mask(w)
				}
			}
			return acc, want
		}
		o1 := r.Perm(len(steps))
		o2 := r.Perm(len(steps))
		t1, w1 := build(o1)
		t2, w2 := build(o2)
		if w1 != w2 {
			t.Fatal("test oracle broken")
		}
		ev := NewEvaluator(m)
		if ev.Eval(t1) != w1 || ev.Eval(t2) != w2 {
			t.Fatalf("iter %d: simplified term evaluates to %d / %d, want %d\n%s", iter, ev.Eval(t1), ev.Eval(t2), w1, t1)
		}
		if t1 != t2 {
			t.Fatalf("iter %d: the same guarded increments in another order are different terms:\n%s\n%s", iter, t1, t2)
		}
		// mixed arithmetic identity: (x + y) - y == x, ite both ways
		x, y := vars[0], vars[1]
		if got := ev.Eval(c.Bin(KSub, c.Bin(KAdd, x, y), y)); got != vals[0] {
			t.Fatalf("(x+y)-y evaluates to %d want %d", got, vals[0])
		}
		e := c.Ite(bools[0], x, c.Bin(KAdd, x, y))
		want := vals[0]
		if !bvals[0] {
			want = (vals[0] + vals[1]) & mask(w)
		}
		if ev.Eval(e) != want {
			t.Fatalf("ite(c, x, x+y) evaluates to %d want %d", ev.Eval(e), want)
		}
	}
}
