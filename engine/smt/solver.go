package smt

import (
	"bufio"
	"crypto/sha256"
	"fmt"
	"io"
	"os"
	"os/exec"
	"strconv"
	"strings"
	"sync"
	"time"
)

type Result int

const (
	Unsat Result = iota
	Sat
	Unknown
)

func (r Result) String() string { return [...]string{"unsat", "sat", "unknown"}[r] }

// Solver is one long-lived solver process spoken to over a pipe.  Every query
// is a self-contained push/…/pop block, so no state survives between queries.
type Solver struct {
	Name      string // "z3", "z3-new", "cvc5"
	TimeoutMs int
	cmd       *exec.Cmd
	in        io.WriteCloser
	out       *bufio.Reader
	Queries   int
	CacheHits int
	Seconds   float64
	Errors    int
	LastErr   string
	seed      int
	Log       io.Writer
	Cross     *Solver // optional second solver: every uncached query is asked twice and the verdicts compared
	CrossN    int
	CrossBad  int
	Retries   int  // queries answered unknown within TimeoutMs and asked again with a longer limit
	noRetry   bool // set on the one-off solver used for a retry
}

func StartSolver(name string, timeoutMs int, seed int) (*Solver, error) {
	s := &Solver{Name: name, TimeoutMs: timeoutMs, seed: seed}
	if f := os.Getenv("GOSYMX_SOLVERLOG"); f != "" {
		if w, err := os.OpenFile(f, os.O_CREATE|os.O_APPEND|os.O_WRONLY, 0o644); err == nil {
			s.Log = w
		}
	}
	if err := s.start(); err != nil {
		return nil, err
	}
	return s, nil
}

func (s *Solver) start() error {
	var cmd *exec.Cmd
	switch s.Name {
	case "z3", "z3-new":
		cmd = exec.Command(s.Name, "-in", fmt.Sprintf("-t:%d", s.TimeoutMs))
	case "cvc5":
		cmd = exec.Command("cvc5", "--incremental", "--produce-models", "--lang=smt2", fmt.Sprintf("--tlimit-per=%d", s.TimeoutMs), fmt.Sprintf("--seed=%d", s.seed))
	default:
		return fmt.Errorf("unknown solver %q", s.Name)
	}
	in, err := cmd.StdinPipe()
	if err != nil {
		return err
	}
	out, err := cmd.StdoutPipe()
	if err != nil {
		return err
	}
	if err := cmd.Start(); err != nil {
		return err
	}
	s.cmd, s.in, s.out = cmd, in, bufio.NewReaderSize(out, 1<<16)
	switch s.Name {
	case "z3", "z3-new":
		s.send("(set-option :produce-models true)\n")
		if s.seed != 0 {
			s.send(fmt.Sprintf("(set-option :smt.random_seed %d)\n(set-option :sat.random_seed %d)\n", s.seed, s.seed))
		}
	case "cvc5":
		s.send("(set-logic ALL)\n")
	}
	return nil
}

func (s *Solver) send(txt string) {
	if s.Log != nil {
		io.WriteString(s.Log, txt)
	}
	io.WriteString(s.in, txt)
}

func (s *Solver) Close() {
	if s.Cross != nil {
		s.Cross.Close()
	}
	if s.cmd != nil {
		s.in.Close()
		done := make(chan struct{})
		go func() { s.cmd.Wait(); close(done) }()
		select {
		case <-done:
		case <-time.After(2 * time.Second):
			s.cmd.Process.Kill()
		}
		s.cmd = nil
	}
}

func (s *Solver) restart() {
	if s.cmd != nil {
		s.cmd.Process.Kill()
		s.cmd.Wait()
	}
	s.start()
}

// readSexp reads one complete s-expression or atom line from the solver.
func (s *Solver) readSexp() (string, error) {
	var sb strings.Builder
	depth := 0
	started := false
	inBar := false
	inStr := false
	for {
		b, err := s.out.ReadByte()
		if err != nil {
			return sb.String(), err
		}
		if !started {
			if b == ' ' || b == '\n' || b == '\r' || b == '\t' {
				continue
			}
			started = true
		}
		sb.WriteByte(b)
		switch {
		case inBar:
			if b == '|' {
				inBar = false
			}
		case inStr:
			if b == '"' {
				inStr = false
			}
		case b == '|':
			inBar = true
		case b == '"':
			inStr = true
		case b == '(':
			depth++
		case b == ')':
			depth--
			if depth == 0 {
				return sb.String(), nil
			}
		case b == '\n':
			if depth == 0 {
				return strings.TrimSpace(sb.String()), nil
			}
		}
	}
}

type cacheEntry struct {
	res  Result
	vals map[string]uint64
}

var (
	cacheMu sync.RWMutex
	cache   = map[[32]byte]cacheEntry{}
)

const cacheMax = 4000000

// CheckQuery decides the conjunction of asserts.  On Sat the values of the
// free variables are stored into model.  Results are memoised process-wide on
// the canonical query text (per solver name).
func (s *Solver) CheckQuery(asserts []*Term, model Model) Result {
	text, vars := BuildQuery(asserts)
	key := sha256.Sum256([]byte(s.Name + "\x00" + text))
	cacheMu.RLock()
	ce, ok := cache[key]
	cacheMu.RUnlock()
	if ok {
		s.CacheHits++
		if ce.res == Sat && model != nil {
			for k, v := range ce.vals {
				model[k] = v
			}
		}
		return ce.res
	}
	t0 := time.Now()
	errs := s.Errors
	res, vals := s.run(text, vars)
	if res == Unknown && s.Errors == errs && !s.noRetry && s.Retries < 12 && os.Getenv("GOSYMX_NORETRY") == "" {
		// a plain timeout (no solver error): ask once more with six times the limit in a
		// fresh process, so that a loaded machine does not turn a decidable query into
		// an inconclusive run; a second unknown stands (at most 12 retries per solver
		// process, so that a run full of genuinely hard queries still ends)
		lim := s.TimeoutMs * 6
		if lim > 900000 {
			lim = 900000
		}
		if r, err := StartSolver(s.Name, lim, s.seed); err == nil {
			r.noRetry = true
			res, vals = r.run(text, vars)
			if r.Errors > 0 {
				s.Errors++
				s.LastErr = "retry: " + r.LastErr
				res = Unknown
			}
			r.Close()
			s.Retries++
		}
	}
	s.Seconds += time.Since(t0).Seconds()
	s.Queries++
	if s.Cross != nil && res != Unknown {
		r2, _ := s.Cross.run(text, nil)
		s.CrossN++
		if r2 != Unknown && r2 != res {
			s.CrossBad++
			s.Errors++
			s.LastErr = fmt.Sprintf("solver disagreement: %s says %v, %s says %v on:\n%s", s.Name, res, s.Cross.Name, r2, text)
			res = Unknown
		}
	}
	if res != Unknown {
		cacheMu.Lock()
		if len(cache) < cacheMax {
			cache[key] = cacheEntry{res, vals}
		}
		cacheMu.Unlock()
	}
	if res == Sat && model != nil {
		for k, v := range vals {
			model[k] = v
		}
	}
	return res
}

func (s *Solver) run(text string, vars []*Term) (Result, map[string]uint64) {
	s.send("(push 1)\n" + text + "(check-sat)\n(echo \"gosymx-mark\")\n")
	ans, err := s.readAnswer()
	if err != nil {
		s.Errors++
		s.LastErr = "solver died: " + err.Error()
		s.restart()
		return Unknown, nil
	}
	res := Unknown
	switch ans {
	case "sat":
		res = Sat
	case "unsat":
		res = Unsat
	case "unknown", "timeout":
		res = Unknown
	default:
		s.Errors++
		if s.LastErr == "" {
			s.LastErr = ans
		}
		res = Unknown
	}
	var vals map[string]uint64
	if res == Sat && len(vars) > 0 {
		var q strings.Builder
		q.WriteString("(get-value (")
		for _, v := range vars {
			q.WriteString(quoteName(v.Name))
			q.WriteString(" ")
		}
		q.WriteString("))\n")
		s.send(q.String())
		txt, err := s.readSexp()
		vals = map[string]uint64{}
		if err != nil || strings.HasPrefix(txt, "(error") {
			s.Errors++
			s.LastErr = "get-value: " + txt
			res = Unknown
		} else if !parseValues(txt, Model(vals)) {
			s.Errors++
			s.LastErr = "get-value parse: " + txt
			res = Unknown
		}
	}
	s.send("(pop 1)\n")
	return res, vals
}

// readAnswer reads solver output up to the echo marker that follows every
// check-sat; any (error ...) seen on the way makes the answer inconclusive.
func (s *Solver) readAnswer() (string, error) {
	verdict := ""
	bad := false
	for {
		txt, err := s.readSexp()
		if err != nil {
			return "", err
		}
		txt = strings.Trim(txt, "\"")
		if txt == "" {
			continue
		}
		if txt == "gosymx-mark" {
			break
		}
		if strings.HasPrefix(txt, "(error") {
			s.LastErr = txt
			bad = true
			continue
		}
		switch txt {
		case "sat", "unsat", "unknown", "timeout":
			verdict = txt
		}
	}
	if bad || verdict == "" {
		return "error", nil
	}
	return verdict, nil
}

// parseValues parses ((|x| #x00ff) (|b| true) ...) into model.
func parseValues(txt string, model Model) bool {
	i := 0
	n := len(txt)
	skip := func() {
		for i < n && (txt[i] == ' ' || txt[i] == '\n' || txt[i] == '\r' || txt[i] == '\t') {
			i++
		}
	}
	skip()
	if i >= n || txt[i] != '(' {
		return false
	}
	i++
	for {
		skip()
		if i >= n {
			return false
		}
		if txt[i] == ')' {
			return true
		}
		if txt[i] != '(' {
			return false
		}
		i++
		skip()
		var name string
		if txt[i] == '|' {
			j := strings.IndexByte(txt[i+1:], '|')
			if j < 0 {
				return false
			}
			name = txt[i+1 : i+1+j]
			i = i + 1 + j + 1
		} else {
			j := i
			for j < n && txt[j] != ' ' && txt[j] != '\n' {
				j++
			}
			name = txt[i:j]
			i = j
		}
		skip()
		var val uint64
		switch {
		case strings.HasPrefix(txt[i:], "true"):
			val = 1
			i += 4
		case strings.HasPrefix(txt[i:], "false"):
			val = 0
			i += 5
		case strings.HasPrefix(txt[i:], "#x"):
			j := i + 2
			for j < n && isHex(txt[j]) {
				j++
			}
			v, err := strconv.ParseUint(txt[i+2:j], 16, 64)
			if err != nil {
				return false
			}
			val = v
			i = j
		case strings.HasPrefix(txt[i:], "#b"):
			j := i + 2
			for j < n && (txt[j] == '0' || txt[j] == '1') {
				j++
			}
			v, err := strconv.ParseUint(txt[i+2:j], 2, 64)
			if err != nil {
				return false
			}
			val = v
			i = j
		case strings.HasPrefix(txt[i:], "(_ bv"):
			j := i + 5
			k := j
			for k < n && txt[k] >= '0' && txt[k] <= '9' {
				k++
			}
			v, err := strconv.ParseUint(txt[j:k], 10, 64)
			if err != nil {
				return false
			}
			val = v
			for k < n && txt[k] != ')' {
				k++
			}
			i = k + 1
		default:
			return false
		}
		model[name] = val
		skip()
		if i >= n || txt[i] != ')' {
			return false
		}
		i++
	}
}

func isHex(b byte) bool {
	return (b >= '0' && b <= '9') || (b >= 'a' && b <= 'f') || (b >= 'A' && b <= 'F')
}
