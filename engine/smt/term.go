// Package smt is a small hash-consed term DAG over Bool and fixed-width
// bit-vectors (width <= 64) with a constant-folding simplifier, an evaluator
// under a model, and an SMT-LIB2 printer.  It is the formula language of the
// gosymx symbolic interpreter.
package smt

import (
	"fmt"
	"math/bits"
	"sort"
	"strconv"
	"strings"
)

type Kind uint8

const (
	KConst Kind = iota
	KVar
	KNot
	KAnd
	KOr
	KIte
	KEq
	KAdd
	KSub
	KMul
	KUDiv
	KSDiv
	KURem
	KSRem
	KBAnd
	KBOr
	KBXor
	KBNot
	KNeg
	KShl
	KLShr
	KAShr
	KUlt
	KUle
	KSlt
	KSle
	KExtract // P1=hi P2=lo
	KZext    // W = new width
	KSext
	KConcat
	// overflow predicates (Bool): true iff the mathematical result does not fit W bits
	KUMulOvf
	KSMulOvf
	KUAddOvf
	KSAddOvf
	KUSubOvf
	KSSubOvf
)

var kindName = map[Kind]string{
	KNot: "not", KAnd: "and", KOr: "or", KIte: "ite", KEq: "=",
	KAdd: "bvadd", KSub: "bvsub", KMul: "bvmul", KUDiv: "bvudiv", KSDiv: "bvsdiv", KURem: "bvurem", KSRem: "bvsrem",
	KBAnd: "bvand", KBOr: "bvor", KBXor: "bvxor", KBNot: "bvnot", KNeg: "bvneg", KShl: "bvshl", KLShr: "bvlshr", KAShr: "bvashr",
	KUlt: "bvult", KUle: "bvule", KSlt: "bvslt", KSle: "bvsle", KConcat: "concat",
}

// Term is an immutable node.  W == 0 means sort Bool.
type Term struct {
	ID   int32
	Kind Kind
	W    uint8
	P1   uint8
	P2   uint8
	Val  uint64 // KConst
	Name string // KVar
	A    []*Term
	H    uint64 // structural hash (independent of creation order)
}

func (t *Term) IsConst() bool { return t.Kind == KConst }
func (t *Term) IsBool() bool  { return t.W == 0 }
func (t *Term) IsTrue() bool  { return t.Kind == KConst && t.W == 0 && t.Val == 1 }
func (t *Term) IsFalse() bool { return t.Kind == KConst && t.W == 0 && t.Val == 0 }

type key struct {
	k       Kind
	w       uint8
	p1, p2  uint8
	val     uint64
	name    string
	a, b, c int32
}

// Ctx owns a term table.  Not safe for concurrent use: one Ctx per worker path.
type Ctx struct {
	tab   map[key]*Term
	nary  map[string]*Term
	next  int32
	Vars  []*Term // in creation order
	byNm  map[string]*Term
	True  *Term
	False *Term
}

func NewCtx() *Ctx {
	c := &Ctx{tab: make(map[key]*Term), byNm: make(map[string]*Term)}
	c.False = c.Bool(false)
	c.True = c.Bool(true)
	return c
}

func (c *Ctx) NumTerms() int { return int(c.next) }

func mask(w uint8) uint64 {
	if w >= 64 {
		return ^uint64(0)
	}
	return (uint64(1) << w) - 1
}

func sx(v uint64, w uint8) int64 {
	if w >= 64 {
		return int64(v)
	}
	sh := 64 - uint(w)
	return int64(v<<sh) >> sh
}

func structHash(k Kind, w, p1, p2 uint8, val uint64, name string, a []*Term) uint64 {
	h := uint64(1469598103934665603)
	mix := func(x uint64) {
		h ^= x
		h *= 1099511628211
		h ^= h >> 29
	}
	mix(uint64(k))
	mix(uint64(w)<<16 | uint64(p1)<<8 | uint64(p2))
	mix(val)
	for i := 0; i < len(name); i++ {
		mix(uint64(name[i]))
	}
	for _, x := range a {
		mix(x.H)
	}
	return h
}

func (c *Ctx) mk(k Kind, w uint8, p1, p2 uint8, val uint64, name string, a ...*Term) *Term {
	ky := key{k: k, w: w, p1: p1, p2: p2, val: val, name: name, a: -1, b: -1, c: -1}
	if len(a) > 3 {
		// n-ary and/or: key by string
		var sb strings.Builder
		fmt.Fprintf(&sb, "%d:", k)
		for _, x := range a {
			fmt.Fprintf(&sb, "%d,", x.ID)
		}
		s := sb.String()
		if c.nary == nil {
			c.nary = make(map[string]*Term)
		}
		if t, ok := c.nary[s]; ok {
			return t
		}
		t := &Term{ID: c.next, Kind: k, W: w, P1: p1, P2: p2, Val: val, Name: name, A: append([]*Term(nil), a...)}
		t.H = structHash(k, w, p1, p2, val, name, a)
		c.next++
		c.nary[s] = t
		return t
	}
	if len(a) > 0 {
		ky.a = a[0].ID
	}
	if len(a) > 1 {
		ky.b = a[1].ID
	}
	if len(a) > 2 {
		ky.c = a[2].ID
	}
	if t, ok := c.tab[ky]; ok {
		return t
	}
	t := &Term{ID: c.next, Kind: k, W: w, P1: p1, P2: p2, Val: val, Name: name}
	if len(a) > 0 {
		t.A = append([]*Term(nil), a...)
	}
	t.H = structHash(k, w, p1, p2, val, name, a)
	c.next++
	c.tab[ky] = t
	return t
}

func (c *Ctx) Bool(b bool) *Term {
	v := uint64(0)
	if b {
		v = 1
	}
	return c.mk(KConst, 0, 0, 0, v, "")
}

func (c *Ctx) BV(v uint64, w uint8) *Term {
	return c.mk(KConst, w, 0, 0, v&mask(w), "")
}

// Var returns the variable with that name (creating it).  w == 0: Bool.
func (c *Ctx) Var(name string, w uint8) *Term {
	if t, ok := c.byNm[name]; ok {
		if t.W != w {
			panic("smt: variable " + name + " redeclared with another width")
		}
		return t
	}
	t := c.mk(KVar, w, 0, 0, 0, name)
	c.byNm[name] = t
	c.Vars = append(c.Vars, t)
	return t
}

func (c *Ctx) LookupVar(name string) *Term { return c.byNm[name] }

// ---------------------------------------------------------------- boolean

func (c *Ctx) Not(a *Term) *Term {
	if a.W != 0 {
		panic("smt: Not on non-bool")
	}
	if a.Kind == KConst {
		return c.Bool(a.Val == 0)
	}
	if a.Kind == KNot {
		return a.A[0]
	}
	return c.mk(KNot, 0, 0, 0, 0, "", a)
}

func (c *Ctx) And(xs ...*Term) *Term {
	var out []*Term
	seen := map[int32]bool{}
	for _, x := range xs {
		if x.W != 0 {
			panic("smt: And on non-bool")
		}
		if x.IsFalse() {
			return c.False
		}
		if x.IsTrue() {
			continue
		}
		if x.Kind == KAnd {
			for _, y := range x.A {
				if !seen[y.ID] {
					seen[y.ID] = true
					out = append(out, y)
				}
			}
			continue
		}
		if !seen[x.ID] {
			seen[x.ID] = true
			out = append(out, x)
		}
	}
	for _, x := range out {
		if x.Kind == KNot && seen[x.A[0].ID] {
			return c.False
		}
	}
	switch len(out) {
	case 0:
		return c.True
	case 1:
		return out[0]
	}
	return c.mk(KAnd, 0, 0, 0, 0, "", out...)
}

func (c *Ctx) Or(xs ...*Term) *Term {
	var out []*Term
	seen := map[int32]bool{}
	for _, x := range xs {
		if x.W != 0 {
			panic("smt: Or on non-bool")
		}
		if x.IsTrue() {
			return c.True
		}
		if x.IsFalse() {
			continue
		}
		if x.Kind == KOr {
			for _, y := range x.A {
				if !seen[y.ID] {
					seen[y.ID] = true
					out = append(out, y)
				}
			}
			continue
		}
		if !seen[x.ID] {
			seen[x.ID] = true
			out = append(out, x)
		}
	}
	for _, x := range out {
		if x.Kind == KNot && seen[x.A[0].ID] {
			return c.True
		}
	}
	switch len(out) {
	case 0:
		return c.False
	case 1:
		return out[0]
	}
	return c.mk(KOr, 0, 0, 0, 0, "", out...)
}

func (c *Ctx) Implies(a, b *Term) *Term { return c.Or(c.Not(a), b) }

func (c *Ctx) Ite(cond, a, b *Term) *Term {
	if cond.W != 0 || a.W != b.W {
		panic(fmt.Sprintf("smt: Ite sorts %d %d %d", cond.W, a.W, b.W))
	}
	if cond.Kind == KConst {
		if cond.Val != 0 {
			return a
		}
		return b
	}
	if a == b {
		return a
	}
	if a.W == 0 {
		if a.IsTrue() && b.IsFalse() {
			return cond
		}
		if a.IsFalse() && b.IsTrue() {
			return c.Not(cond)
		}
		if a.IsTrue() {
			return c.Or(cond, b)
		}
		if a.IsFalse() {
			return c.And(c.Not(cond), b)
		}
		if b.IsTrue() {
			return c.Or(c.Not(cond), a)
		}
		if b.IsFalse() {
			return c.And(cond, a)
		}
	}
	if cond.Kind == KNot {
		return c.Ite(cond.A[0], b, a)
	}
	// ite(c, ite(c, x, y), z) -> ite(c, x, z)
	if a.Kind == KIte && a.A[0] == cond {
		a = a.A[1]
	}
	if b.Kind == KIte && b.A[0] == cond {
		b = b.A[2]
	}
	if a == b {
		return a
	}
	if a.W > 0 && (a.Kind == KAdd || b.Kind == KAdd) {
		// ite(c, b + t, b) = b + ite(c, t, 0)  and  ite(c, a, a + t) = a + ite(c, 0, t):
		// guarded increments become plain sums (so that counters built under guards and
		// sums of indicator terms are the same term)
		split := func(ts []*Term) (xs []*Term, k uint64) {
			for _, t := range ts {
				if t.Kind == KConst {
					k += t.Val
				} else {
					xs = append(xs, t)
				}
			}
			return
		}
		ax, ak := split(addends(a, nil))
		bx, bk := split(addends(b, nil))
		if len(ax) >= len(bx) {
			if rest, ok := multisetDiff(ax, bx); ok && (len(rest) > 0 || ak != bk) {
				// a = b + rest + (ak - bk)
				inc := c.sumNF(append(rest, c.BV(ak-bk, a.W)), a.W)
				return c.sumNF(append(append([]*Term{}, bx...), c.BV(bk, a.W), c.mkIteRaw(cond, inc, c.BV(0, a.W))), a.W)
			}
		}
		if len(bx) > len(ax) {
			if rest, ok := multisetDiff(bx, ax); ok {
				inc := c.sumNF(append(rest, c.BV(bk-ak, a.W)), a.W)
				return c.sumNF(append(append([]*Term{}, ax...), c.BV(ak, a.W), c.mkIteRaw(cond, c.BV(0, a.W), inc)), a.W)
			}
		}
	}
	return c.mk(KIte, a.W, 0, 0, 0, "", cond, a, b)
}

// mkIteRaw builds ite(cond, a, b) with only the cheap simplifications (no sum rewriting).
func (c *Ctx) mkIteRaw(cond, a, b *Term) *Term {
	if a == b {
		return a
	}
	if cond.Kind == KNot {
		return c.mk(KIte, a.W, 0, 0, 0, "", cond.A[0], b, a)
	}
	return c.mk(KIte, a.W, 0, 0, 0, "", cond, a, b)
}

// constIte reports whether t is ite(c, k1, k2) with constant k1, k2.
func constIte(t *Term) bool {
	return t.Kind == KIte && t.A[1].Kind == KConst && t.A[2].Kind == KConst
}

func (c *Ctx) Eq(a, b *Term) *Term {
	if a.W != b.W {
		panic(fmt.Sprintf("smt: Eq widths %d %d", a.W, b.W))
	}
	if a == b {
		return c.True
	}
	if a.Kind == KConst && b.Kind == KConst {
		return c.Bool(a.Val == b.Val)
	}
	if a.Kind == KConst {
		a, b = b, a
	}
	if b.Kind == KConst {
		if a.W == 0 {
			if b.Val != 0 {
				return a
			}
			return c.Not(a)
		}
		if a.Kind == KIte && (a.A[1].Kind == KConst || a.A[2].Kind == KConst) {
			return c.Ite(a.A[0], c.Eq(a.A[1], b), c.Eq(a.A[2], b))
		}
		if a.Kind == KZext {
			if b.Val > mask(a.A[0].W) {
				return c.False
			}
			return c.Eq(a.A[0], c.BV(b.Val, a.A[0].W))
		}
	}
	if a.H > b.H && b.Kind != KConst {
		a, b = b, a
	}
	return c.mk(KEq, 0, 0, 0, 0, "", a, b)
}

// ---------------------------------------------------------------- bit-vector

func evalBin(k Kind, w uint8, x, y uint64) uint64 {
	m := mask(w)
	switch k {
	case KAdd:
		return (x + y) & m
	case KSub:
		return (x - y) & m
	case KMul:
		return (x * y) & m
	case KUDiv:
		if y == 0 {
			return m
		}
		return x / y
	case KURem:
		if y == 0 {
			return x
		}
		return x % y
	case KSDiv:
		sxv, syv := sx(x, w), sx(y, w)
		if syv == 0 {
			if sxv >= 0 {
				return m
			}
			return 1
		}
		if syv == -1 {
			return uint64(-sxv) & m
		}
		return uint64(sxv/syv) & m
	case KSRem:
		sxv, syv := sx(x, w), sx(y, w)
		if syv == 0 {
			return x
		}
		if syv == -1 {
			return 0
		}
		return uint64(sxv%syv) & m
	case KBAnd:
		return x & y
	case KBOr:
		return x | y
	case KBXor:
		return x ^ y
	case KShl:
		if y >= uint64(w) {
			return 0
		}
		return (x << y) & m
	case KLShr:
		if y >= uint64(w) {
			return 0
		}
		return x >> y
	case KAShr:
		s := sx(x, w)
		if y >= uint64(w) {
			if s < 0 {
				return m
			}
			return 0
		}
		return uint64(s>>y) & m
	}
	panic("evalBin")
}

func evalCmp(k Kind, w uint8, x, y uint64) bool {
	switch k {
	case KUlt:
		return x < y
	case KUle:
		return x <= y
	case KSlt:
		return sx(x, w) < sx(y, w)
	case KSle:
		return sx(x, w) <= sx(y, w)
	}
	panic("evalCmp")
}

func evalOvf(k Kind, w uint8, x, y uint64) bool {
	m := mask(w)
	switch k {
	case KUAddOvf:
		if w == 64 {
			_, carry := bits.Add64(x, y, 0)
			return carry != 0
		}
		return x+y > m
	case KUSubOvf:
		return x < y
	case KSAddOvf:
		a, b := sx(x, w), sx(y, w)
		r := sx(uint64(a+b)&m, w)
		return (a >= 0 && b >= 0 && r < 0) || (a < 0 && b < 0 && r >= 0)
	case KSSubOvf:
		a, b := sx(x, w), sx(y, w)
		r := sx(uint64(a-b)&m, w)
		return (a >= 0 && b < 0 && r < 0) || (a < 0 && b >= 0 && r >= 0)
	case KUMulOvf:
		hi, lo := bits.Mul64(x, y)
		if w == 64 {
			return hi != 0
		}
		return hi != 0 || lo > m
	case KSMulOvf:
		a, b := sx(x, w), sx(y, w)
		if a == 0 || b == 0 {
			return false
		}
		neg := (a < 0) != (b < 0)
		ua, ub := uint64(a), uint64(b)
		if a < 0 {
			ua = uint64(-a)
		}
		if b < 0 {
			ub = uint64(-b)
		}
		hi, lo := bits.Mul64(ua, ub)
		if hi != 0 {
			return true
		}
		lim := uint64(1) << (w - 1)
		if neg {
			return lo > lim
		}
		return lo > lim-1
	}
	panic("evalOvf")
}

func (c *Ctx) Bin(k Kind, a, b *Term) *Term {
	if a.W != b.W || a.W == 0 {
		panic(fmt.Sprintf("smt: Bin %v widths %d %d", k, a.W, b.W))
	}
	w := a.W
	if a.Kind == KConst && b.Kind == KConst {
		return c.BV(evalBin(k, w, a.Val, b.Val), w)
	}
	// push through constant ites (keeps 0/1 flags foldable); not for +, where the sum normal
	// form must see the indicator terms themselves
	if k == KAdd {
		return c.sumNF(append(addends(a, nil), addends(b, nil)...), w)
	}
	if b.Kind == KConst && constIte(a) {
		return c.Ite(a.A[0], c.BV(evalBin(k, w, a.A[1].Val, b.Val), w), c.BV(evalBin(k, w, a.A[2].Val, b.Val), w))
	}
	if a.Kind == KConst && constIte(b) {
		return c.Ite(b.A[0], c.BV(evalBin(k, w, a.Val, b.A[1].Val), w), c.BV(evalBin(k, w, a.Val, b.A[2].Val), w))
	}
	switch k {
	case KAdd:
		return c.sumNF(append(addends(a, nil), addends(b, nil)...), w)
	case KSub:
		if b.Kind == KConst {
			if b.Val == 0 {
				return a
			}
			return c.Bin(KAdd, a, c.BV(-b.Val, w))
		}
		if a == b {
			return c.BV(0, w)
		}
	case KMul:
		if a.Kind == KConst {
			a, b = b, a
		}
		if b.Kind == KConst {
			if b.Val == 0 {
				return b
			}
			if b.Val == 1 {
				return a
			}
		}
	case KUDiv, KSDiv:
		if b.Kind == KConst && b.Val == 1 {
			return a
		}
	case KBAnd:
		if a.Kind == KConst {
			a, b = b, a
		}
		if b.Kind == KConst {
			if b.Val == 0 {
				return b
			}
			if b.Val == mask(w) {
				return a
			}
		}
		if a == b {
			return a
		}
	case KBOr:
		if a.Kind == KConst {
			a, b = b, a
		}
		if b.Kind == KConst {
			if b.Val == 0 {
				return a
			}
			if b.Val == mask(w) {
				return b
			}
		}
		if a == b {
			return a
		}
	case KBXor:
		if a.Kind == KConst {
			a, b = b, a
		}
		if b.Kind == KConst && b.Val == 0 {
			return a
		}
		if a == b {
			return c.BV(0, w)
		}
	case KShl, KLShr, KAShr:
		if b.Kind == KConst && b.Val == 0 {
			return a
		}
		if a.Kind == KConst && a.Val == 0 {
			return a
		}
		if b.Kind == KConst && b.Val >= uint64(w) && k != KAShr {
			return c.BV(0, w)
		}
	}
	switch k {
	case KMul, KBAnd, KBOr, KBXor:
		if b.Kind != KConst && a.H > b.H {
			a, b = b, a
		}
	}
	return c.mk(k, w, 0, 0, 0, "", a, b)
}

// addends flattens a left-associated sum into its addends.
func addends(t *Term, out []*Term) []*Term {
	for t.Kind == KAdd {
		out = append(out, t.A[1])
		t = t.A[0]
	}
	return append(out, t)
}

// sumNF builds the sum of ts in normal form: constants folded into one trailing constant,
// the other addends ordered by structural hash, left-associated.  Two sums of the same
// multiset of addends are therefore the same term, whatever order they were added in.
func (c *Ctx) sumNF(ts []*Term, w uint8) *Term {
	var k uint64
	var xs []*Term
	for _, t := range ts {
		if t.Kind == KConst {
			k += t.Val
		} else {
			xs = append(xs, t)
		}
	}
	k &= mask(w)
	sort.SliceStable(xs, func(i, j int) bool {
		if xs[i].H != xs[j].H {
			return xs[i].H < xs[j].H
		}
		return xs[i].ID < xs[j].ID
	})
	if len(xs) == 0 {
		return c.BV(k, w)
	}
	acc := xs[0]
	for _, x := range xs[1:] {
		acc = c.mk(KAdd, w, 0, 0, 0, "", acc, x)
	}
	if k != 0 {
		acc = c.mk(KAdd, w, 0, 0, 0, "", acc, c.BV(k, w))
	}
	return acc
}

// multisetDiff returns big \ small when small is a sub-multiset of big (by term identity).
func multisetDiff(big, small []*Term) ([]*Term, bool) {
	cnt := map[int32]int{}
	for _, t := range small {
		cnt[t.ID]++
	}
	var rest []*Term
	for _, t := range big {
		if cnt[t.ID] > 0 {
			cnt[t.ID]--
		} else {
			rest = append(rest, t)
		}
	}
	for _, v := range cnt {
		if v != 0 {
			return nil, false
		}
	}
	return rest, true
}

func (c *Ctx) Cmp(k Kind, a, b *Term) *Term {
	if a.W != b.W || a.W == 0 {
		panic(fmt.Sprintf("smt: Cmp widths %d %d", a.W, b.W))
	}
	w := a.W
	if a.Kind == KConst && b.Kind == KConst {
		return c.Bool(evalCmp(k, w, a.Val, b.Val))
	}
	if a == b {
		return c.Bool(k == KUle || k == KSle)
	}
	if b.Kind == KConst && a.Kind == KIte && (a.A[1].Kind == KConst || a.A[2].Kind == KConst) {
		return c.Ite(a.A[0], c.Cmp(k, a.A[1], b), c.Cmp(k, a.A[2], b))
	}
	if a.Kind == KConst && b.Kind == KIte && (b.A[1].Kind == KConst || b.A[2].Kind == KConst) {
		return c.Ite(b.A[0], c.Cmp(k, a, b.A[1]), c.Cmp(k, a, b.A[2]))
	}
	switch k {
	case KUlt:
		if b.Kind == KConst && b.Val == 0 {
			return c.False
		}
		if a.Kind == KConst && a.Val == mask(w) {
			return c.False
		}
	case KUle:
		if a.Kind == KConst && a.Val == 0 {
			return c.True
		}
		if b.Kind == KConst && b.Val == mask(w) {
			return c.True
		}
	}
	return c.mk(k, 0, 0, 0, 0, "", a, b)
}

func (c *Ctx) Ovf(k Kind, a, b *Term) *Term {
	if a.W != b.W || a.W == 0 {
		panic("smt: Ovf widths")
	}
	if a.Kind == KConst && b.Kind == KConst {
		return c.Bool(evalOvf(k, a.W, a.Val, b.Val))
	}
	return c.mk(k, 0, a.W, 0, 0, "", a, b)
}

func (c *Ctx) BNot(a *Term) *Term {
	if a.Kind == KConst {
		return c.BV(^a.Val, a.W)
	}
	if a.Kind == KBNot {
		return a.A[0]
	}
	return c.mk(KBNot, a.W, 0, 0, 0, "", a)
}

func (c *Ctx) Neg(a *Term) *Term {
	if a.Kind == KConst {
		return c.BV(-a.Val, a.W)
	}
	return c.mk(KNeg, a.W, 0, 0, 0, "", a)
}

func (c *Ctx) Extract(a *Term, hi, lo uint8) *Term {
	if hi < lo || hi >= a.W {
		panic("smt: Extract range")
	}
	w := hi - lo + 1
	if w == a.W {
		return a
	}
	if a.Kind == KConst {
		return c.BV(a.Val>>lo, w)
	}
	if constIte(a) {
		return c.Ite(a.A[0], c.BV(a.A[1].Val>>lo, w), c.BV(a.A[2].Val>>lo, w))
	}
	if (a.Kind == KZext || a.Kind == KSext) && lo == 0 {
		in := a.A[0]
		if w == in.W {
			return in
		}
		if w < in.W {
			return c.Extract(in, w-1, 0)
		}
		if a.Kind == KZext {
			return c.Zext(in, w)
		}
		return c.Sext(in, w)
	}
	return c.mk(KExtract, w, hi, lo, 0, "", a)
}

func (c *Ctx) Zext(a *Term, w uint8) *Term {
	if w == a.W {
		return a
	}
	if w < a.W {
		panic("smt: Zext narrower")
	}
	if a.Kind == KConst {
		return c.BV(a.Val, w)
	}
	if constIte(a) {
		return c.Ite(a.A[0], c.BV(a.A[1].Val, w), c.BV(a.A[2].Val, w))
	}
	if a.Kind == KZext {
		return c.Zext(a.A[0], w)
	}
	return c.mk(KZext, w, 0, 0, 0, "", a)
}

func (c *Ctx) Sext(a *Term, w uint8) *Term {
	if w == a.W {
		return a
	}
	if w < a.W {
		panic("smt: Sext narrower")
	}
	if a.Kind == KConst {
		return c.BV(uint64(sx(a.Val, a.W)), w)
	}
	if constIte(a) {
		return c.Ite(a.A[0], c.BV(uint64(sx(a.A[1].Val, a.W)), w), c.BV(uint64(sx(a.A[2].Val, a.W)), w))
	}
	if a.Kind == KZext {
		return c.Zext(a.A[0], w)
	}
	return c.mk(KSext, w, 0, 0, 0, "", a)
}

func (c *Ctx) Concat(hi, lo *Term) *Term {
	w := hi.W + lo.W
	if w > 64 {
		panic("smt: Concat > 64")
	}
	if hi.Kind == KConst && lo.Kind == KConst {
		return c.BV(hi.Val<<lo.W|lo.Val, w)
	}
	return c.mk(KConcat, w, 0, 0, 0, "", hi, lo)
}

// ---------------------------------------------------------------- evaluation

// Model maps variable names to values (Bool: 0/1).
type Model map[string]uint64

// Evaluator evaluates terms under a model with memoisation.
type Evaluator struct {
	M     Model
	cache map[int32]uint64
}

func NewEvaluator(m Model) *Evaluator { return &Evaluator{M: m, cache: make(map[int32]uint64)} }

func (e *Evaluator) Reset(m Model) {
	e.M = m
	e.cache = make(map[int32]uint64)
}

// Invalidate drops memoised results (call after the model changed in place).
func (e *Evaluator) Invalidate() { e.cache = make(map[int32]uint64) }

func (e *Evaluator) Eval(t *Term) uint64 {
	switch t.Kind {
	case KConst:
		return t.Val
	case KVar:
		return e.M[t.Name] & maskB(t.W)
	}
	if v, ok := e.cache[t.ID]; ok {
		return v
	}
	v := e.eval(t)
	e.cache[t.ID] = v
	return v
}

func maskB(w uint8) uint64 {
	if w == 0 {
		return 1
	}
	return mask(w)
}

func b2u(b bool) uint64 {
	if b {
		return 1
	}
	return 0
}

func (e *Evaluator) eval(t *Term) uint64 {
	switch t.Kind {
	case KNot:
		return 1 - e.Eval(t.A[0])
	case KAnd:
		for _, a := range t.A {
			if e.Eval(a) == 0 {
				return 0
			}
		}
		return 1
	case KOr:
		for _, a := range t.A {
			if e.Eval(a) != 0 {
				return 1
			}
		}
		return 0
	case KIte:
		if e.Eval(t.A[0]) != 0 {
			return e.Eval(t.A[1])
		}
		return e.Eval(t.A[2])
	case KEq:
		return b2u(e.Eval(t.A[0]) == e.Eval(t.A[1]))
	case KAdd, KSub, KMul, KUDiv, KSDiv, KURem, KSRem, KBAnd, KBOr, KBXor, KShl, KLShr, KAShr:
		return evalBin(t.Kind, t.W, e.Eval(t.A[0]), e.Eval(t.A[1]))
	case KUlt, KUle, KSlt, KSle:
		return b2u(evalCmp(t.Kind, t.A[0].W, e.Eval(t.A[0]), e.Eval(t.A[1])))
	case KUMulOvf, KSMulOvf, KUAddOvf, KSAddOvf, KUSubOvf, KSSubOvf:
		return b2u(evalOvf(t.Kind, t.A[0].W, e.Eval(t.A[0]), e.Eval(t.A[1])))
	case KBNot:
		return ^e.Eval(t.A[0]) & mask(t.W)
	case KNeg:
		return -e.Eval(t.A[0]) & mask(t.W)
	case KExtract:
		return (e.Eval(t.A[0]) >> t.P2) & mask(t.W)
	case KZext:
		return e.Eval(t.A[0])
	case KSext:
		return uint64(sx(e.Eval(t.A[0]), t.A[0].W)) & mask(t.W)
	case KConcat:
		return e.Eval(t.A[0])<<t.A[1].W | e.Eval(t.A[1])
	}
	panic(fmt.Sprintf("smt: eval kind %d", t.Kind))
}

// ---------------------------------------------------------------- substitution

// Subst rebuilds t with the variables in pins replaced by constants, through
// the simplifying constructors.  memo must be reset whenever pins changes.
func (c *Ctx) Subst(t *Term, pins map[string]uint64, memo map[int32]*Term) *Term {
	switch t.Kind {
	case KConst:
		return t
	case KVar:
		if v, ok := pins[t.Name]; ok {
			if t.W == 0 {
				return c.Bool(v != 0)
			}
			return c.BV(v, t.W)
		}
		return t
	}
	if r, ok := memo[t.ID]; ok {
		return r
	}
	args := make([]*Term, len(t.A))
	changed := false
	for i, a := range t.A {
		args[i] = c.Subst(a, pins, memo)
		if args[i] != a {
			changed = true
		}
	}
	r := t
	if changed {
		r = c.Rebuild(t, args)
	}
	memo[t.ID] = r
	return r
}

// Rebuild applies t's operator to new arguments through the simplifying constructors.
func (c *Ctx) Rebuild(t *Term, a []*Term) *Term {
	switch t.Kind {
	case KNot:
		return c.Not(a[0])
	case KAnd:
		return c.And(a...)
	case KOr:
		return c.Or(a...)
	case KIte:
		return c.Ite(a[0], a[1], a[2])
	case KEq:
		return c.Eq(a[0], a[1])
	case KAdd, KSub, KMul, KUDiv, KSDiv, KURem, KSRem, KBAnd, KBOr, KBXor, KShl, KLShr, KAShr:
		return c.Bin(t.Kind, a[0], a[1])
	case KUlt, KUle, KSlt, KSle:
		return c.Cmp(t.Kind, a[0], a[1])
	case KUMulOvf, KSMulOvf, KUAddOvf, KSAddOvf, KUSubOvf, KSSubOvf:
		return c.Ovf(t.Kind, a[0], a[1])
	case KBNot:
		return c.BNot(a[0])
	case KNeg:
		return c.Neg(a[0])
	case KExtract:
		return c.Extract(a[0], t.P1, t.P2)
	case KZext:
		return c.Zext(a[0], t.W)
	case KSext:
		return c.Sext(a[0], t.W)
	case KConcat:
		return c.Concat(a[0], a[1])
	}
	panic("smt: Rebuild kind")
}

// CollectVars appends the names of the free variables of t to out (no duplicates per seen map).
func CollectVars(t *Term, seen map[int32]bool, out *[]*Term) {
	if seen[t.ID] {
		return
	}
	seen[t.ID] = true
	if t.Kind == KVar {
		*out = append(*out, t)
		return
	}
	for _, a := range t.A {
		CollectVars(a, seen, out)
	}
}

// ---------------------------------------------------------------- printing

func sortStr(w uint8) string {
	if w == 0 {
		return "Bool"
	}
	return fmt.Sprintf("(_ BitVec %d)", w)
}

func constStr(t *Term) string {
	if t.W == 0 {
		if t.Val != 0 {
			return "true"
		}
		return "false"
	}
	if t.W%4 == 0 {
		return fmt.Sprintf("#x%0*x", int(t.W/4), t.Val)
	}
	return fmt.Sprintf("#b%0*b", int(t.W), t.Val)
}

func quoteName(n string) string { return "|" + n + "|" }

// BuildQuery renders the conjunction of asserts as a self-contained SMT-LIB2
// fragment: declarations, one define-fun per interior node (named in a
// canonical post-order so that structurally equal queries give equal text),
// and the assert commands.  It returns the text and the free variables.
func BuildQuery(asserts []*Term) (string, []*Term) {
	roots := append([]*Term(nil), asserts...)
	sort.SliceStable(roots, func(i, j int) bool { return roots[i].H < roots[j].H })
	var sb strings.Builder
	names := map[int32]string{}
	var vars []*Term
	seenVar := map[int32]bool{}
	next := 0
	ref := func(t *Term) string {
		switch t.Kind {
		case KConst:
			return constStr(t)
		case KVar:
			return quoteName(t.Name)
		}
		return names[t.ID]
	}
	var defs strings.Builder
	type fr struct {
		t *Term
		i int
	}
	for _, r := range roots {
		if r.Kind == KConst {
			continue
		}
		stack := []fr{{r, 0}}
		for len(stack) > 0 {
			top := &stack[len(stack)-1]
			n := top.t
			if n.Kind == KVar {
				if !seenVar[n.ID] {
					seenVar[n.ID] = true
					vars = append(vars, n)
				}
				stack = stack[:len(stack)-1]
				continue
			}
			if _, done := names[n.ID]; done || n.Kind == KConst {
				stack = stack[:len(stack)-1]
				continue
			}
			if top.i < len(n.A) {
				a := n.A[top.i]
				top.i++
				stack = append(stack, fr{a, 0})
				continue
			}
			stack = stack[:len(stack)-1]
			next++
			nm := "n" + strconv.Itoa(next)
			names[n.ID] = nm
			defs.WriteString("(define-fun ")
			defs.WriteString(nm)
			defs.WriteString(" () ")
			defs.WriteString(sortStr(n.W))
			defs.WriteString(" ")
			defs.WriteString(nodeBody(n, ref))
			defs.WriteString(")\n")
		}
	}
	for _, v := range vars {
		fmt.Fprintf(&sb, "(declare-fun %s () %s)\n", quoteName(v.Name), sortStr(v.W))
	}
	sb.WriteString(defs.String())
	for _, r := range roots {
		sb.WriteString("(assert ")
		sb.WriteString(ref(r))
		sb.WriteString(")\n")
	}
	return sb.String(), vars
}

func nodeBody(n *Term, arg func(*Term) string) string {
	switch n.Kind {
	case KExtract:
		return fmt.Sprintf("((_ extract %d %d) %s)", n.P1, n.P2, arg(n.A[0]))
	case KZext:
		return fmt.Sprintf("((_ zero_extend %d) %s)", n.W-n.A[0].W, arg(n.A[0]))
	case KSext:
		return fmt.Sprintf("((_ sign_extend %d) %s)", n.W-n.A[0].W, arg(n.A[0]))
	case KUMulOvf, KSMulOvf, KUAddOvf, KSAddOvf, KUSubOvf, KSSubOvf:
		return ovfBody(n, arg)
	}
	var sb strings.Builder
	sb.WriteString("(")
	sb.WriteString(kindName[n.Kind])
	for _, a := range n.A {
		sb.WriteString(" ")
		sb.WriteString(arg(a))
	}
	sb.WriteString(")")
	return sb.String()
}

// overflow predicates are expanded with double-width arithmetic (portable to z3 and cvc5).
func ovfBody(n *Term, arg func(*Term) string) string {
	w := int(n.A[0].W)
	a, b := arg(n.A[0]), arg(n.A[1])
	switch n.Kind {
	case KUAddOvf:
		return fmt.Sprintf("(= #b1 ((_ extract %d %d) (bvadd ((_ zero_extend 1) %s) ((_ zero_extend 1) %s))))", w, w, a, b)
	case KUSubOvf:
		return fmt.Sprintf("(bvult %s %s)", a, b)
	case KSAddOvf:
		return fmt.Sprintf("(let ((r (bvadd ((_ sign_extend 1) %s) ((_ sign_extend 1) %s)))) (not (= ((_ extract %d %d) r) ((_ extract %d %d) r))))", a, b, w, w, w-1, w-1)
	case KSSubOvf:
		return fmt.Sprintf("(let ((r (bvsub ((_ sign_extend 1) %s) ((_ sign_extend 1) %s)))) (not (= ((_ extract %d %d) r) ((_ extract %d %d) r))))", a, b, w, w, w-1, w-1)
	case KUMulOvf:
		return fmt.Sprintf("(not (= ((_ extract %d %d) (bvmul ((_ zero_extend %d) %s) ((_ zero_extend %d) %s))) (_ bv0 %d)))", 2*w-1, w, w, a, w, b, w)
	case KSMulOvf:
		return fmt.Sprintf("(let ((r (bvmul ((_ sign_extend %d) %s) ((_ sign_extend %d) %s)))) (not (= r ((_ sign_extend %d) ((_ extract %d 0) r)))))", w, a, w, b, w, w-1)
	}
	panic("ovfBody")
}

// String renders t as a self-contained (tree) expression; for diagnostics only.
func (t *Term) String() string {
	switch t.Kind {
	case KConst:
		return constStr(t)
	case KVar:
		return t.Name
	case KExtract:
		return fmt.Sprintf("(extract[%d:%d] %s)", t.P1, t.P2, t.A[0])
	case KZext:
		return fmt.Sprintf("(zext%d %s)", t.W, t.A[0])
	case KSext:
		return fmt.Sprintf("(sext%d %s)", t.W, t.A[0])
	}
	nm := kindName[t.Kind]
	if nm == "" {
		nm = fmt.Sprintf("k%d", t.Kind)
	}
	var sb strings.Builder
	sb.WriteString("(" + nm)
	for _, a := range t.A {
		sb.WriteString(" ")
		sb.WriteString(a.String())
	}
	sb.WriteString(")")
	return sb.String()
}
