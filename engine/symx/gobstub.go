package symx

// Contract stub for encoding/gob (reflection-based, cannot be interpreted):
// Encode deep-copies the exported fields of its argument into an engine-side
// blob and writes a fixed-size token to the io.Writer; Decode reads the token
// from the io.Reader and deep-copies the blob into the destination with gob's
// documented wire behaviour (zero-length slices arrive as nil, unexported fields
// are not transmitted).  Real gob framing is outside the claim.

import (
	"fmt"
	"go/types"
)

type gobBlob struct {
	t types.Type
	v value
}

const gobToken = "GOSYMXGOB"

func init() {
	stdStubs["encoding/gob.NewEncoder"] = func(fr *frame, a []value) value {
		cell := value(structure{a[0]})
		return &cell
	}
	stdStubs["encoding/gob.NewDecoder"] = func(fr *frame, a []value) value {
		cell := value(structure{a[0]})
		return &cell
	}
	stdStubs["(*encoding/gob.Encoder).Encode"] = func(fr *frame, a []value) value {
		p := fr.i.p
		w := (*a[0].(*value)).(structure)[0]
		e := a[1].(iface)
		if e.t == nil {
			return mkError(fr, "gob: cannot encode nil")
		}
		cp := gobCopy(e.t, e.v)
		id := len(p.blobs)
		p.blobs = append(p.blobs, gobBlob{e.t, cp})
		tok := gobToken + fmt.Sprintf("%08d", id)
		buf := make([]value, len(tok))
		for k := 0; k < len(tok); k++ {
			buf[k] = tok[k]
		}
		wi := w.(iface)
		wm := fr.i.prog.LookupMethod(wi.t, nil, "Write")
		if wm == nil {
			panic(engineError{"gob stub: writer has no Write method"})
		}
		r := call(fr.i, fr, 0, wm, []value{wi.v, buf}).(tuple)
		if err := r[1].(iface); err.t != nil {
			return err
		}
		return iface{}
	}
	stdStubs["(*encoding/gob.Decoder).Decode"] = func(fr *frame, a []value) value {
		p := fr.i.p
		r := (*a[0].(*value)).(structure)[0]
		dst := a[1].(iface)
		ri := r.(iface)
		rm := fr.i.prog.LookupMethod(ri.t, nil, "Read")
		if rm == nil {
			panic(engineError{"gob stub: reader has no Read method"})
		}
		need := len(gobToken) + 8
		var got []byte
		for len(got) < need {
			buf := make([]value, need-len(got))
			for k := range buf {
				buf[k] = uint8(0)
			}
			res := call(fr.i, fr, 0, rm, []value{ri.v, buf}).(tuple)
			n := res[0].(int)
			for k := 0; k < n; k++ {
				b, ok := buf[k].(uint8)
				if !ok {
					panic(engineError{"gob stub: symbolic byte in the stream"})
				}
				got = append(got, b)
			}
			if err := res[1].(iface); err.t != nil {
				if len(got) < need {
					return err
				}
			}
			if n == 0 {
				return mkError(fr, "gob: unexpected EOF")
			}
		}
		s := string(got)
		if s[:len(gobToken)] != gobToken {
			return mkError(fr, "gob: bad stream")
		}
		id := 0
		fmt.Sscanf(s[len(gobToken):], "%d", &id)
		if id < 0 || id >= len(p.blobs) {
			return mkError(fr, "gob: bad stream")
		}
		blob := p.blobs[id]
		if !types.Identical(blob.t, dst.t) {
			return mkError(fr, "gob: type mismatch")
		}
		// dst is a pointer: copy the pointee
		pt, ok := dst.t.Underlying().(*types.Pointer)
		if !ok {
			return mkError(fr, "gob: attempt to decode into a non-pointer")
		}
		src := blob.v.(*value)
		cp := gobCopy(pt.Elem(), *src)
		gobMerge(pt.Elem(), dst.v.(*value), cp)
		return iface{}
	}
}

// gobCopy deep-copies v of type t keeping exported struct fields only.
func gobCopy(t types.Type, v value) value {
	switch tt := t.Underlying().(type) {
	case *types.Pointer:
		pv := v.(*value)
		if pv == nil {
			return (*value)(nil)
		}
		c := gobCopy(tt.Elem(), *pv)
		return &c
	case *types.Struct:
		s := v.(structure)
		out := make(structure, len(s))
		for i := range s {
			f := tt.Field(i)
			if f.Exported() {
				out[i] = gobCopy(f.Type(), s[i])
			} else {
				out[i] = zero(f.Type())
			}
		}
		return out
	case *types.Slice:
		s := v.([]value)
		if len(s) == 0 {
			return []value(nil) // gob does not transmit empty slices
		}
		out := make([]value, len(s))
		for i := range s {
			out[i] = gobCopy(tt.Elem(), s[i])
		}
		return out
	case *types.Array:
		s := v.(array)
		out := make(array, len(s))
		for i := range s {
			out[i] = gobCopy(tt.Elem(), s[i])
		}
		return out
	case *types.Basic:
		return v
	}
	panic(engineError{fmt.Sprintf("gob stub: unsupported type %v", t)})
}

// gobMerge stores the decoded value into *dst the way gob does: fields that were
// not transmitted (zero values) leave the destination untouched.
func gobMerge(t types.Type, dst *value, src value) {
	switch tt := t.Underlying().(type) {
	case *types.Struct:
		d := (*dst).(structure)
		s := src.(structure)
		for i := range s {
			f := tt.Field(i)
			if !f.Exported() {
				continue
			}
			gobMerge(f.Type(), &d[i], s[i])
		}
	case *types.Pointer:
		sp := src.(*value)
		if sp == nil {
			return
		}
		dp := (*dst).(*value)
		if dp == nil {
			z := zero(tt.Elem())
			dp = &z
			*dst = dp
		}
		gobMerge(tt.Elem(), dp, *sp)
	case *types.Slice:
		s := src.([]value)
		if len(s) == 0 {
			return
		}
		*dst = s
	case *types.Basic:
		if src == zero(t) {
			return
		}
		*dst = src
	default:
		*dst = src
	}
}
