package symx

// Program loading, workers and path exploration (re-execution DFS).

import (
	"fmt"
	"go/token"
	"go/types"
	"os"
	"runtime"
	"sort"
	"strings"
	"sync"
	"time"

	"golang.org/x/tools/go/packages"
	"golang.org/x/tools/go/ssa"
	"golang.org/x/tools/go/ssa/ssautil"

	"verif/engine/smt"
)

const ModPath = "github.com/Tom-Johnston/mamba"
const RtPath = ModPath + "/zzverifrt"

// Program is the shared, read-only SSA program.
type Program struct {
	Prog         *ssa.Program
	Pkgs         map[string]*ssa.Package
	initOrder    []*ssa.Package
	targetPkgs   []*ssa.Package
	rtypeMethods methodSet
	errorMethods methodSet
	reflectPkg   *ssa.Package
	rtErrString  types.Type
	sizes        types.Sizes
	targetCache  sync.Map // *ssa.Function -> bool
	intrCache    sync.Map // *ssa.Function -> externalFn or nil marker
	LoadSeconds  float64
}

var pureStd = map[string]bool{
	"math/bits": true, "sort": true, "slices": true, "cmp": true, "container/list": true,
	"container/heap": true, "bytes": true, "strings": true, "unicode/utf8": true,
	"io": true, "text/tabwriter": true, "math": true, "strconv": true,
}

// Load type-checks /repo (with the overlay) and builds SSA for everything reachable.
func Load(repo string, overlay map[string][]byte, patterns []string) (*Program, error) {
	t0 := time.Now()
	cfg := &packages.Config{
		Mode:       packages.LoadAllSyntax,
		Dir:        repo,
		Overlay:    overlay,
		BuildFlags: []string{"-tags=gosymx"},
		Env:        append(os.Environ(), "GOFLAGS=-mod=mod", "GOPROXY=off", "GOSUMDB=off", "GOTOOLCHAIN=local", "GOWORK=off"),
	}
	initial, err := packages.Load(cfg, patterns...)
	if err != nil {
		return nil, err
	}
	var errs []string
	packages.Visit(initial, nil, func(p *packages.Package) {
		if strings.HasPrefix(p.PkgPath, ModPath) {
			for _, e := range p.Errors {
				errs = append(errs, e.Error())
			}
		}
	})
	if len(errs) > 0 {
		return nil, fmt.Errorf("load errors:\n%s", strings.Join(errs, "\n"))
	}
	prog, _ := ssautil.AllPackages(initial, ssa.InstantiateGenerics|ssa.BareInits)
	prog.Build()
	P := &Program{Prog: prog, Pkgs: map[string]*ssa.Package{}}
	P.sizes = types.SizesFor("gc", "amd64")
	for _, sp := range prog.AllPackages() {
		P.Pkgs[sp.Pkg.Path()] = sp
	}
	// dependency order of packages whose init we run
	seen := map[string]bool{}
	var visit func(p *packages.Package)
	visit = func(p *packages.Package) {
		if seen[p.PkgPath] {
			return
		}
		seen[p.PkgPath] = true
		keys := make([]string, 0, len(p.Imports))
		for k := range p.Imports {
			keys = append(keys, k)
		}
		sort.Strings(keys)
		for _, k := range keys {
			visit(p.Imports[k])
		}
		sp := P.Pkgs[p.PkgPath]
		if sp == nil {
			return
		}
		if strings.HasPrefix(p.PkgPath, ModPath) {
			P.initOrder = append(P.initOrder, sp)
			P.targetPkgs = append(P.targetPkgs, sp)
		} else if pureStd[p.PkgPath] {
			P.initOrder = append(P.initOrder, sp)
		}
	}
	for _, p := range initial {
		visit(p)
	}
	rt := prog.ImportedPackage("runtime")
	if rt == nil {
		return nil, fmt.Errorf("runtime package not loaded")
	}
	P.rtErrString = rt.Type("errorString").Object().Type()
	// fake reflect (shared mutation of prog: once)
	tmp := &interpreter{prog: prog}
	initReflect(tmp)
	P.reflectPkg, P.rtypeMethods, P.errorMethods = tmp.reflectPackage, tmp.rtypeMethods, tmp.errorMethods
	P.LoadSeconds = time.Since(t0).Seconds()
	return P, nil
}

func (P *Program) isTarget(fn *ssa.Function) bool {
	if v, ok := P.targetCache.Load(fn); ok {
		return v.(bool)
	}
	r := false
	if fn.Pkg != nil && strings.HasPrefix(fn.Pkg.Pkg.Path(), ModPath) && fn.Pkg.Pkg.Path() != RtPath {
		r = true
		if fn.Pos() != token.NoPos {
			file := P.Prog.Fset.Position(fn.Pos()).Filename
			if strings.Contains(file, "zz_verif_") {
				r = false
			}
		}
	}
	P.targetCache.Store(fn, r)
	return r
}

// Harnesses lists the exported H_* functions defined in overlay harness files.
func (P *Program) Harnesses() map[string]*ssa.Function {
	out := map[string]*ssa.Function{}
	for _, sp := range P.targetPkgs {
		for name, m := range sp.Members {
			if fn, ok := m.(*ssa.Function); ok && strings.HasPrefix(name, "H_") {
				out[name] = fn
			}
		}
	}
	return out
}

// Worker owns one interpreter and one solver process.
type Worker struct {
	P      *Program
	i      *interpreter
	Solver *smt.Solver
}

func (P *Program) NewWorker(solverName string, timeoutMs, seed int, cross ...string) (*Worker, error) {
	s, err := smt.StartSolver(solverName, timeoutMs, seed)
	if err != nil {
		return nil, err
	}
	if len(cross) > 0 && cross[0] != "" && cross[0] != solverName {
		c, err := smt.StartSolver(cross[0], timeoutMs, seed)
		if err != nil {
			s.Close()
			return nil, err
		}
		s.Cross = c
	}
	i := &interpreter{
		prog:               P.Prog,
		globals:            make(map[*ssa.Global]*value),
		sizes:              P.sizes,
		goroutines:         1,
		P:                  P,
		reflectPackage:     P.reflectPkg,
		rtypeMethods:       P.rtypeMethods,
		errorMethods:       P.errorMethods,
		runtimeErrorString: P.rtErrString,
	}
	for _, pkg := range P.Prog.AllPackages() {
		for _, m := range pkg.Members {
			if g, ok := m.(*ssa.Global); ok {
				cell := zero(mustDeref(g.Type()))
				i.globals[g] = &cell
			}
		}
	}
	w := &Worker{P: P, i: i, Solver: s}
	// run whitelisted initialisers once, on a throw-away concrete path
	i.p = newPath(WorkItem{}, s, "<init>", 1<<40)
	i.p.funcs = map[string]bool{}
	var ierr error
	cur := ""
	func() {
		defer func() {
			if r := recover(); r != nil {
				ierr = fmt.Errorf("package init failed in %s: %v%s", cur, r, hostStack())
			}
		}()
		for _, sp := range P.initOrder {
			cur = sp.Pkg.Path()
			if f := sp.Func("init"); f != nil {
				call(i, nil, token.NoPos, f, nil)
			}
		}
	}()
	if ierr != nil {
		s.Close()
		return nil, ierr
	}
	return w, nil
}

func (w *Worker) Close() { w.Solver.Close() }

// resetTargetGlobals re-initialises the package-level variables of the module
// under test so that no state leaks between paths.
func (w *Worker) resetTargetGlobals() {
	for _, sp := range w.P.targetPkgs {
		for _, m := range sp.Members {
			if g, ok := m.(*ssa.Global); ok {
				*w.i.globals[g] = zero(mustDeref(g.Type()))
			}
		}
	}
	for _, sp := range w.P.targetPkgs {
		if f := sp.Func("init"); f != nil {
			call(w.i, nil, token.NoPos, f, nil)
		}
	}
}

// PathResult is what one explored path produced.
type PathResult struct {
	Outcome   string // "end", "assume", "violation", "steps", "engine-error", "assume-unknown"
	Viol      *Violation
	EngineErr string
	Pending   []WorkItem
	Stats     PathStats
	Funcs     map[string]bool
	Sample    []ReplayInput
	Digests   []ReplayDigest
	Decisions string
	Foot      *footResult
}

type Options struct {
	Workers       int
	Solver        string
	TimeoutMs     int
	Seed          int
	MaxSteps      int64
	MaxPaths      int64
	Wall          time.Duration
	MaxViolations int
	Merge         bool // guarded merging of pure regions (off by default: it trades paths for harder formulas)
	Verbose       bool
	Footprint     bool
	CrossSolver   string    // second solver for verdict cross-checking ("" = off)
	deadline      time.Time // set by Explore from Wall: no solver call is started after it
}

func (w *Worker) RunPath(fn *ssa.Function, item WorkItem, o *Options) (res *PathResult) {
	p := newPath(item, w.Solver, fn.Name(), o.MaxSteps)
	p.noMerge = !o.Merge
	p.deadline = o.deadline
	p.funcs = map[string]bool{}
	if o.Footprint {
		p.foot = newFootprint()
	}
	w.i.p = p
	res = &PathResult{}
	defer func() {
		r := recover()
		res.Pending = p.pending
		res.Stats = p.stats
		res.Funcs = p.funcs
		res.Decisions = p.decisionString()
		if r == nil {
			return
		}
		switch e := r.(type) {
		case pathEnd:
			res.Outcome = e.reason
			if e.reason == "violation" {
				res.Viol = p.viol
			}
			if e.reason == "steps" {
				func() {
					defer func() { recover() }()
					p.violate("steps", fmt.Sprintf("instruction budget (%d) exhausted: possible non-termination", o.MaxSteps), nil)
				}()
				res.Viol = p.viol
			}
		case engineError:
			res.Outcome = "engine-error"
			res.EngineErr = e.msg
		case *runtime.TypeAssertionError:
			res.Outcome = "engine-error"
			res.EngineErr = "host type assertion: " + e.Error() + hostStack()
		default:
			// unexpected target panic at harness top level
			msg := panicString(r)
			func() {
				defer func() { recover() }()
				p.violate("panic", "unexpected panic: "+msg, nil)
			}()
			res.Outcome = "violation"
			res.Viol = p.viol
		}
	}()
	w.resetTargetGlobals()
	call(w.i, nil, token.NoPos, fn, nil)
	res.Outcome = "end"
	if p.pos < len(p.prefix) {
		panic(engineError{fmt.Sprintf("re-execution ended after %d of %d recorded decisions", p.pos, len(p.prefix))})
	}
	// sample of the inputs of this path
	for _, d := range p.draws {
		ri := ReplayInput{Name: d.Name, Kind: d.Kind}
		if d.Var != "" {
			ri.Val = p.model[d.Var]
		} else {
			ri.Val = d.Cval
		}
		res.Sample = append(res.Sample, ri)
	}
	for _, d := range p.digests {
		res.Digests = append(res.Digests, ReplayDigest{d.name, p.ev.Eval(d.t)})
	}
	if p.foot != nil {
		res.Foot = p.foot.result()
	}
	return res
}

func panicString(r interface{}) string {
	switch e := r.(type) {
	case targetPanic:
		return toString(e.v)
	case runtime.Error:
		return e.Error()
	case string:
		return e
	case error:
		return e.Error()
	}
	return fmt.Sprintf("%T %v", r, r)
}

// HarnessResult aggregates the exploration of one harness.
type HarnessResult struct {
	Harness      string
	Paths        int64 // explored path ends (all outcomes)
	Ended        int64 // reached the end of the harness
	Dropped      int64 // assumption failed
	Violations   []*Violation
	EngineErrors []string
	Incomplete   []string
	Stats        PathStats
	Funcs        map[string]bool
	Samples      [][]ReplayInput
	SampleDig    [][]ReplayDigest
	SampleDec    []string
	Exhaustive   bool
	WallSeconds  float64
	SolverQ      int
	SolverSec    float64
	SolverErrs   int
	CrossChecked int
	Retried      int   // queries answered only after a retry with a longer time limit
	NonTrivial   int64 // paths with >=1 symbolic decision that reached >=1 check
	Unreached    []string
}

// Explore runs the harness to exhaustion of its path tree (or a budget).
func (P *Program) Explore(fn *ssa.Function, o Options) *HarnessResult {
	t0 := time.Now()
	if o.Wall > 0 {
		o.deadline = t0.Add(o.Wall)
	}
	hr := &HarnessResult{Harness: fn.Name(), Funcs: map[string]bool{}}
	hr.Stats.ReachLabels = map[string]bool{}
	hr.Stats.CheckSites = map[string]bool{}
	var mu sync.Mutex
	cond := sync.NewCond(&mu)
	stack := []WorkItem{{}}
	active := 0
	stop := false
	var started int64

	nw := o.Workers
	if nw <= 0 {
		nw = runtime.NumCPU()
	}
	var wg sync.WaitGroup
	for wi := 0; wi < nw; wi++ {
		wg.Add(1)
		go func(wi int) {
			defer wg.Done()
			var w *Worker
			defer func() {
				if w != nil {
					mu.Lock()
					hr.SolverQ += w.Solver.Queries
					hr.SolverSec += w.Solver.Seconds
					hr.SolverErrs += w.Solver.Errors
					hr.CrossChecked += w.Solver.CrossN
					hr.Retried += w.Solver.Retries
					if w.Solver.Errors > 0 {
						hr.Incomplete = append(hr.Incomplete, "solver error: "+trunc(w.Solver.LastErr, 300))
					}
					mu.Unlock()
					w.Close()
				}
			}()
			for {
				mu.Lock()
				for len(stack) == 0 && active > 0 && !stop {
					cond.Wait()
				}
				if stop || (len(stack) == 0 && active == 0) {
					cond.Broadcast()
					mu.Unlock()
					return
				}
				item := stack[len(stack)-1]
				stack = stack[:len(stack)-1]
				active++
				started++
				if o.MaxPaths > 0 && started > o.MaxPaths {
					hr.Incomplete = append(hr.Incomplete, fmt.Sprintf("path budget %d exhausted", o.MaxPaths))
					stop = true
					active--
					cond.Broadcast()
					mu.Unlock()
					return
				}
				if o.Wall > 0 && time.Since(t0) > o.Wall {
					hr.Incomplete = append(hr.Incomplete, fmt.Sprintf("wall budget %v exhausted", o.Wall))
					stop = true
					active--
					cond.Broadcast()
					mu.Unlock()
					return
				}
				mu.Unlock()

				if w == nil {
					var err error
					w, err = P.NewWorker(o.Solver, o.TimeoutMs, o.Seed, o.CrossSolver)
					if err != nil {
						mu.Lock()
						hr.EngineErrors = append(hr.EngineErrors, err.Error())
						stop = true
						active--
						cond.Broadcast()
						mu.Unlock()
						return
					}
				}
				res := w.RunPath(fn, item, &o)

				mu.Lock()
				active--
				hr.Paths++
				mergeStats(&hr.Stats, &res.Stats)
				for f := range res.Funcs {
					hr.Funcs[f] = true
				}
				switch res.Outcome {
				case "end":
					hr.Ended++
					if res.Stats.Decisions > 0 && res.Stats.Obligations > 0 {
						hr.NonTrivial++
					}
					if len(hr.Samples) < 3 || (hr.Ended%257 == 0 && len(hr.Samples) < 8) {
						hr.Samples = append(hr.Samples, res.Sample)
						hr.SampleDig = append(hr.SampleDig, res.Digests)
						hr.SampleDec = append(hr.SampleDec, res.Decisions)
					}
				case "assume":
					hr.Dropped++
				case "violation", "steps":
					if res.Viol != nil {
						hr.Violations = append(hr.Violations, res.Viol)
					}
					if o.MaxViolations > 0 && len(hr.Violations) >= o.MaxViolations {
						stop = true
					}
				case "engine-error":
					hr.EngineErrors = append(hr.EngineErrors, res.EngineErr)
					stop = true
				default:
					hr.Incomplete = append(hr.Incomplete, "path outcome "+res.Outcome)
				}
				if res.Stats.FeasUnknown > 0 {
					hr.Incomplete = append(hr.Incomplete, fmt.Sprintf("%d feasibility queries answered unknown", res.Stats.FeasUnknown))
				}
				if res.Stats.ObUnknown > 0 {
					hr.Incomplete = append(hr.Incomplete, fmt.Sprintf("%d obligations answered unknown", res.Stats.ObUnknown))
					for _, m := range res.Stats.UnknownMsgs {
						hr.Incomplete = append(hr.Incomplete, "unknown: "+m+" ["+trunc(res.Decisions, 120)+"]")
					}
				}
				if !stop {
					stack = append(stack, res.Pending...)
				}
				if o.Verbose && hr.Paths%1000 == 0 {
					fmt.Fprintf(os.Stderr, "  [%s] paths=%d ended=%d dropped=%d stack=%d %.0fs\n", fn.Name(), hr.Paths, hr.Ended, hr.Dropped, len(stack), time.Since(t0).Seconds())
				}
				cond.Broadcast()
				mu.Unlock()
			}
		}(wi)
	}
	wg.Wait()
	hr.Exhaustive = len(stack) == 0 && !stop && len(hr.Incomplete) == 0 && len(hr.EngineErrors) == 0
	hr.WallSeconds = time.Since(t0).Seconds()
	hr.Incomplete = dedup(hr.Incomplete)
	return hr
}

func dedup(xs []string) []string {
	seen := map[string]bool{}
	var out []string
	for _, x := range xs {
		if !seen[x] {
			seen[x] = true
			out = append(out, x)
		}
	}
	return out
}

func mergeStats(a, b *PathStats) {
	a.Steps += b.Steps
	a.Decisions += b.Decisions
	a.NewDecisions += b.NewDecisions
	a.Obligations += b.Obligations
	a.ObFolded += b.ObFolded
	a.ObUnsat += b.ObUnsat
	a.ObUnknown += b.ObUnknown
	a.FeasUnknown += b.FeasUnknown
	a.Merged += b.Merged
	a.ExistsQueries += b.ExistsQueries
	a.WatchObl += b.WatchObl
	a.SolverQueries += b.SolverQueries
	a.SolverFastPath += b.SolverFastPath
	for k := range b.ReachLabels {
		a.ReachLabels[k] = true
	}
	for k := range b.CheckSites {
		a.CheckSites[k] = true
	}
}
