package symx

import "golang.org/x/tools/go/ssa"

// tryMerge executes both arms of a symbolic If under a guard when the region
// is pure (see DESIGN.md 1.2).  Returns true when it handled the branch and
// set fr.block to the join block.
func (i *interpreter) tryMerge(fr *frame, instr *ssa.If, c sym) bool {
	return false
}
