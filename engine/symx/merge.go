package symx

// Guarded merging of pure regions (DESIGN.md 1.2): at a symbolic If whose two
// arms are short, call-free, allocation-free regions that meet again at the
// immediate post-dominator (or both return), both arms are executed
// speculatively and their effects are combined with ite(c, then, else) instead
// of forking.  Anything unexpected (a nested symbolic branch, an instruction
// outside the whitelist, a run-time panic, a non-scalar difference) aborts the
// merge, rolls memory back and the engine forks as usual, so merging is an
// optimisation only.

import (
	"go/types"
	"sync"

	"golang.org/x/tools/go/ssa"

	"verif/engine/smt"
)

type mergeAbort struct{ why string }

const mergeMaxInstrs = 64

var (
	pdomMu    sync.Mutex
	pdomCache = map[*ssa.Function]map[*ssa.BasicBlock]*ssa.BasicBlock{}
)

// ipdom returns the immediate post-dominator of every block of fn (nil for
// blocks whose only post-dominator is the virtual exit).
func ipdomOf(fn *ssa.Function) map[*ssa.BasicBlock]*ssa.BasicBlock {
	pdomMu.Lock()
	defer pdomMu.Unlock()
	if m, ok := pdomCache[fn]; ok {
		return m
	}
	n := len(fn.Blocks)
	// pdom sets as bitsets over block indices; index n = virtual exit
	words := (n + 1 + 63) / 64
	full := make([]uint64, words)
	for i := 0; i <= n; i++ {
		full[i/64] |= 1 << uint(i%64)
	}
	sets := make([][]uint64, n+1)
	for i := 0; i < n; i++ {
		sets[i] = append([]uint64{}, full...)
	}
	sets[n] = make([]uint64, words)
	sets[n][n/64] |= 1 << uint(n%64)
	succs := func(b *ssa.BasicBlock) []int {
		if len(b.Succs) == 0 {
			return []int{n}
		}
		out := make([]int, len(b.Succs))
		for i, s := range b.Succs {
			out[i] = s.Index
		}
		return out
	}
	for changed := true; changed; {
		changed = false
		for i := n - 1; i >= 0; i-- {
			b := fn.Blocks[i]
			nw := append([]uint64{}, full...)
			for _, s := range succs(b) {
				for w := range nw {
					nw[w] &= sets[s][w]
				}
			}
			nw[i/64] |= 1 << uint(i%64)
			for w := range nw {
				if nw[w] != sets[i][w] {
					changed = true
				}
			}
			sets[i] = nw
		}
	}
	has := func(s []uint64, k int) bool { return s[k/64]>>uint(k%64)&1 == 1 }
	count := func(s []uint64) int {
		c := 0
		for k := 0; k <= n; k++ {
			if has(s, k) {
				c++
			}
		}
		return c
	}
	res := map[*ssa.BasicBlock]*ssa.BasicBlock{}
	for i := 0; i < n; i++ {
		// immediate post-dominator: the strict post-dominator with the largest pdom set
		best, bestc := -1, -1
		for k := 0; k < n; k++ {
			if k != i && has(sets[i], k) {
				if c := count(sets[k]); c > bestc {
					best, bestc = k, c
				}
			}
		}
		if best >= 0 {
			res[fn.Blocks[i]] = fn.Blocks[best]
		}
	}
	pdomCache[fn] = res
	return res
}

type armResult struct {
	writes  map[*value]value // cells written -> final value
	order   []*value
	last    *ssa.BasicBlock // block from which the join was entered
	phiIn   []value         // values flowing into the join block's phis from this arm
	ret     value
	returns bool
}

type envOld struct {
	k       ssa.Value
	v       value
	present bool
}

// runArm speculatively executes blocks from start until block join is reached
// (or a Return when join is nil).  Memory writes are logged and rolled back.
func (i *interpreter) runArm(fr *frame, from, start, join *ssa.BasicBlock) (res *armResult, ok bool) {
	p := i.p
	res = &armResult{writes: map[*value]value{}}
	olds := map[*value]value{}
	var oldOrder []*value
	envLogged := map[ssa.Value]bool{}
	var envOlds []envOld
	logEnv := func(k ssa.Value) {
		if !envLogged[k] {
			envLogged[k] = true
			v, present := fr.env[k]
			envOlds = append(envOlds, envOld{k, v, present})
		}
	}
	defer func() {
		// roll memory and SSA registers back in every case (an arm may re-execute
		// blocks that ran before the branch, e.g. a loop header)
		for k := len(oldOrder) - 1; k >= 0; k-- {
			*oldOrder[k] = olds[oldOrder[k]]
		}
		for k := len(envOlds) - 1; k >= 0; k-- {
			if envOlds[k].present {
				fr.env[envOlds[k].k] = envOlds[k].v
			} else {
				delete(fr.env, envOlds[k].k)
			}
		}
		p.speculating--
		if r := recover(); r != nil {
			if isSentinel(r) {
				panic(r)
			}
			ok = false
		}
	}()
	p.speculating++
	prev, cur := from, start
	visited := map[*ssa.BasicBlock]bool{from: true}
	steps := 0
	for {
		if cur == join && join != nil {
			res.last = prev
			// the values this arm feeds into the join's phis (read before the registers are rolled back)
			pi := -1
			for k, pb := range join.Preds {
				if pb == prev {
					pi = k
				}
			}
			if pi < 0 {
				return nil, false
			}
			for _, ins := range join.Instrs {
				ph, isPhi := ins.(*ssa.Phi)
				if !isPhi {
					break
				}
				res.phiIn = append(res.phiIn, fr.get(ph.Edges[pi]))
			}
			break
		}
		if visited[cur] {
			return nil, false
		}
		visited[cur] = true
		// phis of an inner block
		var phiVals []value
		var phis []*ssa.Phi
		pi := -1
		for k, pb := range cur.Preds {
			if pb == prev {
				pi = k
			}
		}
		for _, ins := range cur.Instrs {
			ph, isPhi := ins.(*ssa.Phi)
			if !isPhi {
				break
			}
			phis = append(phis, ph)
			phiVals = append(phiVals, fr.get(ph.Edges[pi]))
		}
		for k, ph := range phis {
			logEnv(ph)
			fr.env[ph] = phiVals[k]
		}
		next := (*ssa.BasicBlock)(nil)
		for _, ins := range cur.Instrs[len(phis):] {
			steps++
			if steps > mergeMaxInstrs {
				return nil, false
			}
			p.stats.Steps++
			if v, isVal := ins.(ssa.Value); isVal {
				logEnv(v)
			}
			switch in := ins.(type) {
			case *ssa.DebugRef:
			case *ssa.BinOp, *ssa.Convert, *ssa.ChangeType, *ssa.Extract, *ssa.FieldAddr, *ssa.Field, *ssa.IndexAddr, *ssa.Index, *ssa.ChangeInterface:
				visitInstr(fr, ins)
			case *ssa.UnOp:
				if in.Op.String() == "<-" {
					return nil, false
				}
				visitInstr(fr, ins)
			case *ssa.Store:
				addr := fr.get(in.Addr).(*value)
				if addr == nil {
					return nil, false
				}
				t := mustDeref(in.Addr.Type())
				switch t.Underlying().(type) {
				case *types.Struct, *types.Array:
					return nil, false // aggregate stores are not merged
				}
				if _, seen := olds[addr]; !seen {
					olds[addr] = *addr
					oldOrder = append(oldOrder, addr)
				}
				*addr = fr.get(in.Val)
				if _, seen := res.writes[addr]; !seen {
					res.order = append(res.order, addr)
				}
				res.writes[addr] = *addr
			case *ssa.Jump:
				next = cur.Succs[0]
			case *ssa.If:
				cv := fr.get(in.Cond)
				b, isBool := cv.(bool)
				if !isBool {
					return nil, false // nested symbolic branch
				}
				if b {
					next = cur.Succs[0]
				} else {
					next = cur.Succs[1]
				}
			case *ssa.Return:
				if join != nil {
					return nil, false
				}
				switch len(in.Results) {
				case 0:
					res.ret = nil
				case 1:
					res.ret = fr.get(in.Results[0])
				default:
					var tv tuple
					for _, r := range in.Results {
						tv = append(tv, fr.get(r))
					}
					res.ret = tv
				}
				res.returns = true
				return res, true
			default:
				return nil, false
			}
		}
		if next == nil {
			return nil, false
		}
		prev, cur = cur, next
	}
	return res, true
}

func isScalar(v value) bool {
	switch v.(type) {
	case bool, int, int8, int16, int32, int64, uint, uint8, uint16, uint32, uint64, uintptr, sym:
		return true
	}
	return false
}

// iteValue returns ite(c, a, b) for scalars of the same kind; ok=false otherwise.
func (p *Path) iteValue(c *smt.Term, a, b value) (value, bool) {
	if !isScalar(a) || !isScalar(b) {
		// identical non-scalars (same pointer, same slice header) need no merge
		return nil, false
	}
	ta, ka := p.termOf(a)
	tb, kb := p.termOf(b)
	if ka != kb || ta.W != tb.W {
		return nil, false
	}
	return box(p.ctx.Ite(c, ta, tb), ka), true
}

func sameValue(a, b value) (same bool) {
	defer func() {
		if recover() != nil {
			same = false
		}
	}()
	return a == b
}

func (p *Path) mergeVal(c *smt.Term, a, b value) (value, bool) {
	if ta, ok := a.(tuple); ok {
		tb, ok2 := b.(tuple)
		if !ok2 || len(ta) != len(tb) {
			return nil, false
		}
		out := make(tuple, len(ta))
		for k := range ta {
			v, ok := p.mergeVal(c, ta[k], tb[k])
			if !ok {
				return nil, false
			}
			out[k] = v
		}
		return out, true
	}
	if isScalar(a) && isScalar(b) {
		return p.iteValue(c, a, b)
	}
	if a == nil && b == nil {
		return nil, true
	}
	if sameValue(a, b) {
		return a, true
	}
	return nil, false
}

// tryMerge executes both arms of a symbolic If under a guard when the region
// is pure.  Returns true when it handled the branch: either fr.block is the
// join block with its phis already assigned, or the frame has returned.
func (i *interpreter) tryMerge(fr *frame, instr *ssa.If, c sym) bool {
	p := i.p
	if p.noMerge || p.watching > 0 || p.inExists {
		return false
	}
	cond := p.resolve(c.t)
	if cond.IsConst() {
		return false
	}
	blk := instr.Block()
	join := ipdomOf(fr.fn)[blk]
	a1, ok := i.runArm(fr, blk, blk.Succs[0], join)
	if !ok {
		return false
	}
	a2, ok := i.runArm(fr, blk, blk.Succs[1], join)
	if !ok {
		return false
	}
	if a1.returns != a2.returns {
		return false
	}
	// merged memory
	type wr struct {
		addr *value
		v    value
	}
	var writes []wr
	seen := map[*value]bool{}
	for _, lst := range [][]*value{a1.order, a2.order} {
		for _, addr := range lst {
			if seen[addr] {
				continue
			}
			seen[addr] = true
			v1, w1 := a1.writes[addr]
			if !w1 {
				v1 = *addr
			}
			v2, w2 := a2.writes[addr]
			if !w2 {
				v2 = *addr
			}
			mv, ok := p.mergeVal(cond, v1, v2)
			if !ok {
				return false
			}
			writes = append(writes, wr{addr, mv})
		}
	}
	if a1.returns {
		rv, ok := p.mergeVal(cond, a1.ret, a2.ret)
		if !ok {
			return false
		}
		if fr.fn.Recover != nil || fr.defers != nil {
			// keep defer handling simple: do not merge returns of functions with defers
			return false
		}
		for _, w := range writes {
			if i.p.foot != nil {
				i.p.foot.write(w.addr)
			}
			*w.addr = w.v
		}
		fr.result = rv
		fr.block = nil
		p.stats.Merged++
		fr.mergedReturn = true
		return true
	}
	// phis of the join block
	var phis []*ssa.Phi
	for _, ins := range join.Instrs {
		ph, isPhi := ins.(*ssa.Phi)
		if !isPhi {
			break
		}
		phis = append(phis, ph)
	}
	if len(a1.phiIn) != len(phis) || len(a2.phiIn) != len(phis) {
		return false
	}
	vals := make([]value, len(phis))
	for k := range phis {
		mv, ok := p.mergeVal(cond, a1.phiIn[k], a2.phiIn[k])
		if !ok {
			return false
		}
		vals[k] = mv
	}
	for _, w := range writes {
		if i.p.foot != nil {
			i.p.foot.write(w.addr)
		}
		*w.addr = w.v
	}
	for k, ph := range phis {
		fr.env[ph] = vals[k]
	}
	fr.prevBlock, fr.block = a1.last, join
	fr.skipPhis = true
	p.stats.Merged++
	return true
}
