package symx

// Symbolic scalar values and the operators over them.

import (
	"fmt"
	"go/token"
	"go/types"

	"verif/engine/smt"
)

// sym is a symbolic bool or integer.  k is the Go basic kind (decides width
// and signedness of operators that do not receive a static type).
type sym struct {
	t *smt.Term
	k types.BasicKind
}

func kindInfo(k types.BasicKind) (w uint8, signed bool) {
	switch k {
	case types.Bool, types.UntypedBool:
		return 0, false
	case types.Int, types.Int64, types.UntypedInt:
		return 64, true
	case types.Int8:
		return 8, true
	case types.Int16:
		return 16, true
	case types.Int32, types.UntypedRune:
		return 32, true
	case types.Uint, types.Uint64, types.Uintptr:
		return 64, false
	case types.Uint8:
		return 8, false
	case types.Uint16:
		return 16, false
	case types.Uint32:
		return 32, false
	}
	panic(engineError{fmt.Sprintf("kindInfo: unsupported kind %v", k)})
}

func basicKindOf(t types.Type) (types.BasicKind, bool) {
	if t == nil {
		return 0, false
	}
	b, ok := t.Underlying().(*types.Basic)
	if !ok {
		return 0, false
	}
	return b.Kind(), true
}

// concKind returns the basic kind and raw bits of a concrete scalar.
func concKind(v value) (types.BasicKind, uint64, bool) {
	switch x := v.(type) {
	case bool:
		if x {
			return types.Bool, 1, true
		}
		return types.Bool, 0, true
	case int:
		return types.Int, uint64(x), true
	case int8:
		return types.Int8, uint64(x), true
	case int16:
		return types.Int16, uint64(x), true
	case int32:
		return types.Int32, uint64(x), true
	case int64:
		return types.Int64, uint64(x), true
	case uint:
		return types.Uint, uint64(x), true
	case uint8:
		return types.Uint8, uint64(x), true
	case uint16:
		return types.Uint16, uint64(x), true
	case uint32:
		return types.Uint32, uint64(x), true
	case uint64:
		return types.Uint64, x, true
	case uintptr:
		return types.Uintptr, uint64(x), true
	}
	return 0, 0, false
}

// concOfKind boxes raw bits as the native Go value of kind k.
func concOfKind(k types.BasicKind, v uint64) value {
	switch k {
	case types.Bool, types.UntypedBool:
		return v != 0
	case types.Int, types.UntypedInt:
		return int(v)
	case types.Int8:
		return int8(v)
	case types.Int16:
		return int16(v)
	case types.Int32, types.UntypedRune:
		return int32(v)
	case types.Int64:
		return int64(v)
	case types.Uint:
		return uint(v)
	case types.Uint8:
		return uint8(v)
	case types.Uint16:
		return uint16(v)
	case types.Uint32:
		return uint32(v)
	case types.Uint64:
		return v
	case types.Uintptr:
		return uintptr(v)
	}
	panic(engineError{fmt.Sprintf("concOfKind: unsupported kind %v", k)})
}

func isSym(v value) bool { _, ok := v.(sym); return ok }

// termOf returns the term of a scalar (symbolic or concrete) and its kind.
func (p *Path) termOf(v value) (*smt.Term, types.BasicKind) {
	if s, ok := v.(sym); ok {
		return s.t, s.k
	}
	k, bits, ok := concKind(v)
	if !ok {
		panic(engineError{fmt.Sprintf("termOf: not a scalar: %T", v)})
	}
	w, _ := kindInfo(k)
	if w == 0 {
		return p.ctx.Bool(bits != 0), k
	}
	return p.ctx.BV(bits, w), k
}

// box returns a concrete native value when t is constant, else a sym.
func box(t *smt.Term, k types.BasicKind) value {
	if t.IsConst() {
		return concOfKind(k, normBits(t.Val, k))
	}
	return sym{t, k}
}

func normBits(v uint64, k types.BasicKind) uint64 {
	w, signed := kindInfo(k)
	if w == 0 || w == 64 {
		return v
	}
	if signed {
		sh := 64 - uint(w)
		return uint64(int64(v<<sh) >> sh)
	}
	return v
}

// symBinop implements binop when at least one operand is symbolic.
func (p *Path) symBinop(op token.Token, t types.Type, x, y value) value {
	c := p.ctx
	switch op {
	case token.SHL, token.SHR:
		return p.symShift(op, x, y)
	}
	tx, kx := p.termOf(x)
	ty, ky := p.termOf(y)
	if tx.W != ty.W {
		panic(engineError{fmt.Sprintf("symBinop %s: widths %d/%d kinds %v/%v", op, tx.W, ty.W, kx, ky)})
	}
	k := kx
	_, signed := kindInfo(k)
	if tx.W == 0 {
		switch op {
		case token.EQL:
			return box(c.Eq(tx, ty), types.Bool)
		case token.NEQ:
			return box(c.Not(c.Eq(tx, ty)), types.Bool)
		case token.AND:
			return box(c.And(tx, ty), types.Bool)
		case token.OR:
			return box(c.Or(tx, ty), types.Bool)
		case token.XOR:
			return box(c.Not(c.Eq(tx, ty)), types.Bool)
		}
		panic(engineError{"symBinop: bool op " + op.String()})
	}
	if p.watch != nil {
		p.watchArith(op, tx, ty, signed)
	}
	switch op {
	case token.ADD:
		return box(c.Bin(smt.KAdd, tx, ty), k)
	case token.SUB:
		return box(c.Bin(smt.KSub, tx, ty), k)
	case token.MUL:
		return box(c.Bin(smt.KMul, tx, ty), k)
	case token.QUO, token.REM:
		zero := c.Eq(ty, c.BV(0, ty.W))
		if p.branch(zero) {
			panic(rtPanic("integer divide by zero"))
		}
		ty = p.resolve(ty)
		var kk smt.Kind
		switch {
		case op == token.QUO && signed:
			kk = smt.KSDiv
		case op == token.QUO:
			kk = smt.KUDiv
		case signed:
			kk = smt.KSRem
		default:
			kk = smt.KURem
		}
		return box(c.Bin(kk, tx, ty), k)
	case token.AND:
		return box(c.Bin(smt.KBAnd, tx, ty), k)
	case token.OR:
		return box(c.Bin(smt.KBOr, tx, ty), k)
	case token.XOR:
		return box(c.Bin(smt.KBXor, tx, ty), k)
	case token.AND_NOT:
		return box(c.Bin(smt.KBAnd, tx, c.BNot(ty)), k)
	case token.EQL:
		return box(c.Eq(tx, ty), types.Bool)
	case token.NEQ:
		return box(c.Not(c.Eq(tx, ty)), types.Bool)
	case token.LSS:
		if signed {
			return box(c.Cmp(smt.KSlt, tx, ty), types.Bool)
		}
		return box(c.Cmp(smt.KUlt, tx, ty), types.Bool)
	case token.LEQ:
		if signed {
			return box(c.Cmp(smt.KSle, tx, ty), types.Bool)
		}
		return box(c.Cmp(smt.KUle, tx, ty), types.Bool)
	case token.GTR:
		if signed {
			return box(c.Cmp(smt.KSlt, ty, tx), types.Bool)
		}
		return box(c.Cmp(smt.KUlt, ty, tx), types.Bool)
	case token.GEQ:
		if signed {
			return box(c.Cmp(smt.KSle, ty, tx), types.Bool)
		}
		return box(c.Cmp(smt.KUle, ty, tx), types.Bool)
	}
	panic(engineError{"symBinop: op " + op.String()})
}

// symShift implements Go's shift semantics: negative count panics, counts >=
// width give 0 (or the sign fill for signed >>).
func (p *Path) symShift(op token.Token, x, y value) value {
	c := p.ctx
	tx, kx := p.termOf(x)
	ty, ky := p.termOf(y)
	_, ysigned := kindInfo(ky)
	_, xsigned := kindInfo(kx)
	if ysigned {
		neg := c.Cmp(smt.KSlt, ty, c.BV(0, ty.W))
		if p.branch(neg) {
			panic(rtPanic("negative shift amount"))
		}
	}
	w := tx.W
	var big *smt.Term // count >= width
	var cnt *smt.Term
	switch {
	case ty.W == w:
		cnt = ty
		big = c.False // SMT semantics already cover it, except ashr which also matches Go
	case ty.W < w:
		cnt = c.Zext(ty, w)
		big = c.False
	default:
		big = c.Cmp(smt.KUle, c.BV(uint64(w), ty.W), ty)
		cnt = c.Extract(ty, w-1, 0)
	}
	var r *smt.Term
	switch {
	case op == token.SHL:
		r = c.Bin(smt.KShl, tx, cnt)
		if !big.IsFalse() {
			r = c.Ite(big, c.BV(0, w), r)
		}
	case xsigned:
		r = c.Bin(smt.KAShr, tx, cnt)
		if !big.IsFalse() {
			r = c.Ite(big, c.Bin(smt.KAShr, tx, c.BV(uint64(w-1), w)), r)
		}
	default:
		r = c.Bin(smt.KLShr, tx, cnt)
		if !big.IsFalse() {
			r = c.Ite(big, c.BV(0, w), r)
		}
	}
	return box(r, kx)
}

func (p *Path) symUnop(op token.Token, x sym) value {
	c := p.ctx
	switch op {
	case token.NOT:
		return box(c.Not(x.t), types.Bool)
	case token.SUB:
		if p.watch != nil {
			_, signed := kindInfo(x.k)
			if signed {
				// -x overflows only for MinInt
				p.watchCond(c.Eq(x.t, c.BV(uint64(1)<<(x.t.W-1), x.t.W)), "negation")
			}
		}
		return box(c.Neg(x.t), x.k)
	case token.XOR:
		return box(c.BNot(x.t), x.k)
	}
	panic(engineError{"symUnop: op " + op.String()})
}

// symConv converts a symbolic scalar to basic kind dst.
func (p *Path) symConv(dst types.BasicKind, x sym) value {
	c := p.ctx
	switch dst {
	case types.Float32, types.Float64:
		// kept as the exact integer; only comparisons with constants are supported (see symFloat)
		return symFloat{x}
	case types.String:
		// string(rune): one-rune string; only bytes < 0x80 are representable as a single symbolic byte
		panic(engineError{"conversion of symbolic integer to string"})
	}
	dw, _ := kindInfo(dst)
	sw, ssigned := kindInfo(x.k)
	if dw == 0 || sw == 0 {
		panic(engineError{"symConv: bool conversion"})
	}
	var r *smt.Term
	switch {
	case dw == sw:
		r = x.t
	case dw < sw:
		r = c.Extract(x.t, dw-1, 0)
	case ssigned:
		r = c.Sext(x.t, dw)
	default:
		r = c.Zext(x.t, dw)
	}
	return box(r, dst)
}

// symFloat is float64(x) for a symbolic integer x, kept exact.
type symFloat struct{ x sym }

// symEquals is equals() for operands that (may) contain symbolic scalars; it
// returns a bool or a sym.
func (p *Path) symEquals(t types.Type, x, y value) value {
	c := p.ctx
	if isSym(x) || isSym(y) {
		tx, _ := p.termOf(x)
		ty, _ := p.termOf(y)
		return box(c.Eq(tx, ty), types.Bool)
	}
	switch x := x.(type) {
	case structure:
		y := y.(structure)
		st := t.Underlying().(*types.Struct)
		acc := c.True
		for i := range x {
			f := st.Field(i)
			if f.Anonymous() {
				continue
			}
			r := p.symEquals(f.Type(), x[i], y[i])
			tr, _ := p.termOf(r)
			acc = c.And(acc, tr)
		}
		return box(acc, types.Bool)
	case array:
		y := y.(array)
		et := t.Underlying().(*types.Array).Elem()
		acc := c.True
		for i := range x {
			r := p.symEquals(et, x[i], y[i])
			tr, _ := p.termOf(r)
			acc = c.And(acc, tr)
		}
		return box(acc, types.Bool)
	case iface:
		y := y.(iface)
		if !sameType(x.t, y.t) {
			return false
		}
		if x.t == nil {
			return true
		}
		return p.symEquals(x.t, x.v, y.v)
	case symString:
		return p.symStringEq(x, y)
	case string:
		if ys, ok := y.(symString); ok {
			return p.symStringEq(ys, x)
		}
	}
	return equals(t, x, y)
}

// containsSym reports whether a comparable value holds a symbolic scalar (shallow through aggregates).
func containsSym(v value) bool {
	switch x := v.(type) {
	case sym, symString:
		return true
	case structure:
		for _, e := range x {
			if containsSym(e) {
				return true
			}
		}
	case array:
		for _, e := range x {
			if containsSym(e) {
				return true
			}
		}
	case iface:
		return containsSym(x.v)
	}
	return false
}

// rtPanic is the panic value of a Go run-time error detected by the engine
// (the stock interpreter panics with plain strings for these).
func rtPanic(msg string) string { return "runtime error: " + msg }
