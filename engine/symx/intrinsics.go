package symx

// Intrinsics: the harness vocabulary (package zzverifrt) and the environment
// stubs for standard-library functions that cannot be interpreted.

import (
	"fmt"
	"go/types"
	"strconv"
	"strings"

	"golang.org/x/tools/go/ssa"

	"verif/engine/smt"
)

type nilIntr struct{}

// hostFunc is a callable value implemented by the engine (used for the
// reflection-based helpers of sort.Slice).
type hostFunc func(fr *frame, args []value) value

// declined is returned by an intrinsic that wants the real body interpreted
// (e.g. all arguments are concrete).
type declined struct{}

func (P *Program) intrinsic(fn *ssa.Function, name string) externalFn {
	if v, ok := P.intrCache.Load(fn); ok {
		if f, ok := v.(externalFn); ok {
			return f
		}
		return nil
	}
	var f externalFn
	if strings.HasPrefix(name, RtPath+".") {
		f = rtIntrinsics[name[len(RtPath)+1:]]
		if f == nil {
			// plain Go helper inside zzverifrt: interpret its body
		}
	} else if g, ok := stdStubs[name]; ok {
		f = g
	}
	if f != nil {
		P.intrCache.Store(fn, f)
	} else {
		P.intrCache.Store(fn, nilIntr{})
	}
	return f
}

func str(v value) string {
	switch s := v.(type) {
	case string:
		return s
	case symString:
		return "<symbolic string>"
	}
	return fmt.Sprint(v)
}

func (p *Path) boolTerm(v value) *smt.Term {
	switch b := v.(type) {
	case bool:
		return p.ctx.Bool(b)
	case sym:
		return b.t
	}
	panic(engineError{fmt.Sprintf("expected bool, got %T", v)})
}

func callSite(fr *frame) string {
	if fr.caller == nil || fr.caller.fn == nil {
		return "?"
	}
	return fr.caller.fn.Name()
}

var rtIntrinsics map[string]externalFn

// LiveFindings is the set of known-finding ids whose witnesses still reproduce
// natively; harnesses exclude exactly those regions.  Set once before Explore.
var LiveFindings = map[string]bool{}

var globalRandCell value

func init() {
	rtIntrinsics = map[string]externalFn{
		"Symbolic": func(fr *frame, a []value) value { return true },
		"Int": func(fr *frame, a []value) value {
			return fr.i.p.draw(str(a[0]), "int", types.Int, false, 0, 0)
		},
		"IntIn": func(fr *frame, a []value) value {
			lo, hi := a[1].(int), a[2].(int)
			if lo > hi {
				panic(pathEnd{"assume"})
			}
			return fr.i.p.draw(str(a[0]), "int", types.Int, true, uint64(lo), uint64(hi))
		},
		"Uint64": func(fr *frame, a []value) value {
			return fr.i.p.draw(str(a[0]), "uint64", types.Uint64, false, 0, 0)
		},
		"Uint64In": func(fr *frame, a []value) value {
			lo, hi := a[1].(uint64), a[2].(uint64)
			if lo > hi {
				panic(pathEnd{"assume"})
			}
			return fr.i.p.draw(str(a[0]), "uint64", types.Uint64, true, lo, hi)
		},
		"Byte": func(fr *frame, a []value) value {
			return fr.i.p.draw(str(a[0]), "byte", types.Uint8, false, 0, 0)
		},
		"ByteIn": func(fr *frame, a []value) value {
			lo, hi := a[1].(uint8), a[2].(uint8)
			if lo > hi {
				panic(pathEnd{"assume"})
			}
			return fr.i.p.draw(str(a[0]), "byte", types.Uint8, true, uint64(lo), uint64(hi))
		},
		"Bool": func(fr *frame, a []value) value {
			return fr.i.p.draw(str(a[0]), "bool", types.Bool, false, 0, 0)
		},
		"Bit": func(fr *frame, a []value) value {
			p := fr.i.p
			b := p.draw(str(a[0]), "bit", types.Bool, false, 0, 0).(sym)
			return box(p.ctx.Ite(b.t, p.ctx.BV(1, 8), p.ctx.BV(0, 8)), types.Uint8)
		},
		"BitInt": func(fr *frame, a []value) value {
			p := fr.i.p
			b := p.draw(str(a[0]), "bit", types.Bool, false, 0, 0).(sym)
			return box(p.ctx.Ite(b.t, p.ctx.BV(1, 64), p.ctx.BV(0, 64)), types.Int)
		},
		"Bytes": func(fr *frame, a []value) value {
			n := a[1].(int)
			out := make([]value, n)
			for k := 0; k < n; k++ {
				out[k] = fr.i.p.draw(str(a[0])+"["+strconv.Itoa(k)+"]", "byte", types.Uint8, false, 0, 0)
			}
			return out
		},
		"Ints": func(fr *frame, a []value) value {
			n := a[1].(int)
			out := make([]value, n)
			for k := 0; k < n; k++ {
				out[k] = fr.i.p.draw(str(a[0])+"["+strconv.Itoa(k)+"]", "int", types.Int, false, 0, 0)
			}
			return out
		},
		"String": func(fr *frame, a []value) value {
			n := a[1].(int)
			out := make(symString, n)
			for k := 0; k < n; k++ {
				out[k] = fr.i.p.draw(str(a[0])+"["+strconv.Itoa(k)+"]", "byte", types.Uint8, false, 0, 0)
			}
			return normStr(out)
		},
		"Choice": func(fr *frame, a []value) value {
			p := fr.i.p
			k := a[1].(int)
			c := p.choice(k)
			p.draws = append(p.draws, Draw{Name: str(a[0]), Kind: "choice", Cval: uint64(c)})
			return c
		},
		"Assume": func(fr *frame, a []value) value {
			fr.i.p.assume(fr.i.p.boolTerm(a[0]))
			return nil
		},
		"Check": func(fr *frame, a []value) value {
			msg := str(a[1])
			fr.i.p.check(fr.i.p.boolTerm(a[0]), callSite(fr)+":"+msg, msg)
			return nil
		},
		"Fail": func(fr *frame, a []value) value {
			msg := str(a[0])
			fr.i.p.check(fr.i.p.ctx.False, callSite(fr)+":"+msg, msg)
			return nil
		},
		"Reach": func(fr *frame, a []value) value {
			fr.i.p.stats.ReachLabels[str(a[0])] = true
			return nil
		},
		"Panics": func(fr *frame, a []value) (res value) {
			res = tuple{false, ""}
			defer func() {
				if r := recover(); r != nil {
					if isSentinel(r) {
						panic(r)
					}
					if _, ok := r.(exitPanic); ok {
						panic(r)
					}
					res = tuple{true, panicString(r)}
				}
			}()
			call(fr.i, fr, 0, a[0], nil)
			return
		},
		"And": func(fr *frame, a []value) value {
			p := fr.i.p
			return box(p.ctx.And(p.boolTerm(a[0]), p.boolTerm(a[1])), types.Bool)
		},
		"Or": func(fr *frame, a []value) value {
			p := fr.i.p
			return box(p.ctx.Or(p.boolTerm(a[0]), p.boolTerm(a[1])), types.Bool)
		},
		"Not": func(fr *frame, a []value) value {
			p := fr.i.p
			return box(p.ctx.Not(p.boolTerm(a[0])), types.Bool)
		},
		"Implies": func(fr *frame, a []value) value {
			p := fr.i.p
			return box(p.ctx.Implies(p.boolTerm(a[0]), p.boolTerm(a[1])), types.Bool)
		},
		"IteInt": func(fr *frame, a []value) value {
			p := fr.i.p
			x, _ := p.termOf(a[1])
			y, _ := p.termOf(a[2])
			return box(p.ctx.Ite(p.boolTerm(a[0]), x, y), types.Int)
		},
		"IteByte": func(fr *frame, a []value) value {
			p := fr.i.p
			x, _ := p.termOf(a[1])
			y, _ := p.termOf(a[2])
			return box(p.ctx.Ite(p.boolTerm(a[0]), x, y), types.Uint8)
		},
		"B2I": func(fr *frame, a []value) value {
			p := fr.i.p
			return box(p.ctx.Ite(p.boolTerm(a[0]), p.ctx.BV(1, 64), p.ctx.BV(0, 64)), types.Int)
		},
		"Concrete": func(fr *frame, a []value) value {
			if s, ok := a[0].(sym); ok {
				return concOfKind(s.k, normBits(fr.i.p.concretize(s.t), s.k))
			}
			return a[0]
		},
		"ConcreteBool": func(fr *frame, a []value) value {
			if s, ok := a[0].(sym); ok {
				return fr.i.p.branch(s.t)
			}
			return a[0]
		},
		"ConcreteByte": func(fr *frame, a []value) value {
			if s, ok := a[0].(sym); ok {
				return concOfKind(s.k, normBits(fr.i.p.concretize(s.t), s.k))
			}
			return a[0]
		},
		"WatchOverflow": func(fr *frame, a []value) value {
			p := fr.i.p
			if p.watch == nil {
				p.watch = map[string]bool{}
			}
			p.watch[str(a[0])] = true
			return nil
		},
		"ExistsBegin": func(fr *frame, a []value) value {
			p := fr.i.p
			if p.inExists {
				panic(engineError{"nested Exists"})
			}
			p.inExists = true
			p.existsVars = map[string]bool{}
			return nil
		},
		"ExistsEnd": func(fr *frame, a []value) value {
			return fr.i.p.existsEnd(fr.i.p.boolTerm(a[0]))
		},
		"ActorBegin": func(fr *frame, a []value) value {
			if fr.i.p.foot != nil {
				fr.i.p.foot.begin(a[0].(int))
			}
			return nil
		},
		"ActorEnd": func(fr *frame, a []value) value {
			if fr.i.p.foot != nil {
				fr.i.p.foot.end()
			}
			return nil
		},
		"FootprintCheck": func(fr *frame, a []value) value {
			p := fr.i.p
			if p.foot == nil {
				panic(engineError{"FootprintCheck without footprint logging (run with footprint enabled)"})
			}
			msg := p.foot.conflict()
			p.check(p.ctx.Bool(msg == ""), callSite(fr)+":footprint", "footprint interference: "+msg)
			return nil
		},
		"Itoa":         func(fr *frame, a []value) value { return strconv.Itoa(a[0].(int)) },
		"KnownFinding": func(fr *frame, a []value) value { return LiveFindings[str(a[0])] },
		"Digest": func(fr *frame, a []value) value {
			p := fr.i.p
			t, _ := p.termOf(a[1])
			p.digests = append(p.digests, digestRec{str(a[0]), t})
			return nil
		},
	}
}

// existsEnd decides ∃ existsVars. cond under the path condition; every other
// variable of cond must be pinned (else the alternation would be mis-encoded).
func (p *Path) existsEnd(cond *smt.Term) value {
	if !p.inExists {
		panic(engineError{"ExistsEnd without ExistsBegin"})
	}
	p.inExists = false
	cond = p.resolve(cond)
	p.stats.ExistsQueries++
	if cond.IsConst() {
		return cond.Val != 0
	}
	var vars []*smt.Term
	smt.CollectVars(cond, map[int32]bool{}, &vars)
	for _, v := range vars {
		if !p.existsVars[v.Name] {
			panic(engineError{"Exists condition mentions unpinned outer variable " + v.Name + " (∀∃ alternation not encodable)"})
		}
	}
	// domain constraints of the existential variables are in pc (added by draw); they only
	// mention those variables, so pc ∧ cond is the right query.
	if p.ev.Eval(cond) != 0 {
		return true
	}
	r, _ := p.query(cond)
	switch r {
	case smt.Sat:
		return true
	case smt.Unsat:
		return false
	}
	p.stats.ObUnknown++
	panic(pathEnd{"exists-unknown"})
}

// ---------------------------------------------------------------- stdlib stubs

var stdStubs = map[string]externalFn{}

func mkError(fr *frame, msg string) value {
	return iface{t: fr.i.runtimeErrorString, v: msg}
}

// miniFormat implements the %d %v %s %q %c %x subset on concrete values.
func miniFormat(format string, args []value) string {
	var sb strings.Builder
	ai := 0
	for k := 0; k < len(format); k++ {
		ch := format[k]
		if ch != '%' || k+1 >= len(format) {
			sb.WriteByte(ch)
			continue
		}
		k++
		// skip flags/width
		for k < len(format) && strings.IndexByte("+-# 0123456789.", format[k]) >= 0 {
			k++
		}
		if k >= len(format) {
			break
		}
		verb := format[k]
		if verb == '%' {
			sb.WriteByte('%')
			continue
		}
		if ai >= len(args) {
			sb.WriteString("%!" + string(verb) + "(MISSING)")
			continue
		}
		a := args[ai]
		ai++
		if it, ok := a.(iface); ok {
			a = it.v
		}
		switch x := a.(type) {
		case sym, symString, symFloat:
			sb.WriteString("<sym>")
		case string:
			sb.WriteString(x)
		case int, int8, int16, int32, int64, uint, uint8, uint16, uint32, uint64, bool:
			if verb == 'c' {
				sb.WriteString(fmt.Sprintf("%c", x))
			} else if verb == 'x' {
				sb.WriteString(fmt.Sprintf("%x", x))
			} else {
				sb.WriteString(fmt.Sprintf("%v", x))
			}
		default:
			sb.WriteString(toString(a))
		}
	}
	return sb.String()
}

// byteCmp3 compares two byte slices lexicographically, forking on symbolic bytes.
func (p *Path) byteCmp3(a, b []value) int {
	c := p.ctx
	n := len(a)
	if len(b) < n {
		n = len(b)
	}
	for k := 0; k < n; k++ {
		x, y := p.byteTerm(a[k]), p.byteTerm(b[k])
		if p.branch(c.Eq(x, y)) {
			continue
		}
		if p.branch(c.Cmp(smt.KUlt, x, y)) {
			return -1
		}
		return 1
	}
	switch {
	case len(a) < len(b):
		return -1
	case len(a) > len(b):
		return 1
	}
	return 0
}

func bytesOf(v value) []value {
	switch x := v.(type) {
	case []value:
		return x
	case string:
		return []value(strToSym(x))
	case symString:
		return []value(x)
	}
	panic(engineError{fmt.Sprintf("bytesOf %T", v)})
}

// bitsLen builds Len(x) (number of bits needed) as an ite chain over w-bit x.
func (p *Path) bitsLen(x *smt.Term) *smt.Term {
	c := p.ctx
	w := x.W
	r := c.BV(0, 64)
	for k := uint8(0); k < w; k++ {
		// if x >= 2^k then at least k+1
		r = c.Ite(c.Cmp(smt.KUle, c.BV(uint64(1)<<k, w), x), c.BV(uint64(k)+1, 64), r)
	}
	return r
}

func init() {
	lenStub := func(width uint8, lz bool) externalFn {
		return func(fr *frame, a []value) value {
			s, ok := a[0].(sym)
			if !ok {
				return declined{}
			}
			p := fr.i.p
			l := p.bitsLen(s.t)
			if lz {
				l = p.ctx.Bin(smt.KSub, p.ctx.BV(uint64(width), 64), l)
			}
			return box(l, types.Int)
		}
	}
	stdStubs["math/bits.Len64"] = lenStub(64, false)
	stdStubs["math/bits.Len32"] = lenStub(32, false)
	stdStubs["math/bits.Len16"] = lenStub(16, false)
	stdStubs["math/bits.Len8"] = lenStub(8, false)
	stdStubs["math/bits.Len"] = lenStub(64, false)
	stdStubs["math/bits.LeadingZeros64"] = lenStub(64, true)
	stdStubs["math/bits.LeadingZeros32"] = lenStub(32, true)
	stdStubs["math/bits.LeadingZeros"] = lenStub(64, true)
	stdStubs["math/bits.LeadingZeros8"] = lenStub(8, true)
	ones := func(fr *frame, a []value) value {
		s, ok := a[0].(sym)
		if !ok {
			return declined{}
		}
		p := fr.i.p
		c := p.ctx
		r := c.BV(0, 64)
		for k := uint8(0); k < s.t.W; k++ {
			r = c.Bin(smt.KAdd, r, c.Zext(c.Extract(s.t, k, k), 64))
		}
		return box(r, types.Int)
	}
	stdStubs["math/bits.OnesCount64"] = ones
	stdStubs["math/bits.OnesCount"] = ones
	stdStubs["math/bits.OnesCount32"] = ones
	stdStubs["math/bits.OnesCount8"] = ones
	tz := func(fr *frame, a []value) value {
		s, ok := a[0].(sym)
		if !ok {
			return declined{}
		}
		p := fr.i.p
		c := p.ctx
		w := s.t.W
		r := c.BV(uint64(w), 64)
		for k := int(w) - 1; k >= 0; k-- {
			r = c.Ite(c.Eq(c.Extract(s.t, uint8(k), uint8(k)), c.BV(1, 1)), c.BV(uint64(k), 64), r)
		}
		return box(r, types.Int)
	}
	stdStubs["math/bits.TrailingZeros64"] = tz
	stdStubs["math/bits.TrailingZeros"] = tz
	stdStubs["math/bits.TrailingZeros32"] = tz
	stdStubs["internal/bytealg.Compare"] = func(fr *frame, a []value) value {
		return fr.i.p.byteCmp3(bytesOf(a[0]), bytesOf(a[1]))
	}
	stdStubs["bytes.Compare"] = stdStubs["internal/bytealg.Compare"]
	stdStubs["bytes.Equal"] = func(fr *frame, a []value) value {
		x, y := bytesOf(a[0]), bytesOf(a[1])
		if len(x) != len(y) {
			return false
		}
		return fr.i.p.symStringEq(symString(x), symString(y))
	}
	stdStubs["internal/bytealg.Equal"] = stdStubs["bytes.Equal"]
	stdStubs["bytes.IndexByte"] = func(fr *frame, a []value) value {
		p := fr.i.p
		s := bytesOf(a[0])
		ct := p.byteTerm(a[1])
		for k, b := range s {
			if p.branch(p.ctx.Eq(p.byteTerm(b), ct)) {
				return k
			}
		}
		return -1
	}
	stdStubs["internal/bytealg.IndexByte"] = stdStubs["bytes.IndexByte"]
	// bytealg.Count / CountString: number of bytes equal to c (one fork per symbolic comparison)
	stdStubs["internal/bytealg.Count"] = func(fr *frame, a []value) value {
		p := fr.i.p
		s := bytesOf(a[0])
		ct := p.byteTerm(a[1])
		n := 0
		for _, b := range s {
			if p.branch(p.ctx.Eq(p.byteTerm(b), ct)) {
				n++
			}
		}
		return n
	}
	stdStubs["internal/bytealg.CountString"] = stdStubs["internal/bytealg.Count"]
	stdStubs["internal/bytealg.IndexByteString"] = stdStubs["bytes.IndexByte"]
	// sort.Slice: the real pdqsort_func is interpreted; only the two reflection
	// helpers (length, swapper) are provided by the engine.
	stdStubs["sort.Slice"] = func(fr *frame, a []value) value { return sortSlice(fr, a, "pdqsort_func") }
	stdStubs["sort.SliceStable"] = func(fr *frame, a []value) value { return sortSlice(fr, a, "stable_func") }
	// math/rand: every outcome of a draw is a path
	stdStubs["math/rand.NewSource"] = func(fr *frame, a []value) value { return iface{} }
	stdStubs["math/rand.New"] = func(fr *frame, a []value) value {
		cell := value(structure{})
		return &cell
	}
	stdStubs["(*math/rand.Rand).Float64"] = func(fr *frame, a []value) value {
		p := fr.i.p
		c := p.choice(2)
		p.draws = append(p.draws, Draw{Name: "rand.Float64", Kind: "choice", Cval: uint64(c)})
		return []float64{0.25, 0.75}[c]
	}
	stdStubs["(*math/rand.Rand).Intn"] = func(fr *frame, a []value) value {
		p := fr.i.p
		n := a[1].(int)
		if n <= 0 {
			panic("invalid argument to Intn")
		}
		c := p.choice(n)
		p.draws = append(p.draws, Draw{Name: "rand.Intn", Kind: "choice", Cval: uint64(c)})
		return c
	}
	// the package-level functions of math/rand draw from ONE process-wide source: the same
	// choice semantics, plus a read and a write of a global pseudo-cell in the footprint
	// log (two actors that both use the global source interfere through it)
	touchGlobalRand := func(fr *frame) {
		if fp := fr.i.p.foot; fp != nil {
			fp.site = "math/rand global source"
			fp.read(&globalRandCell)
			fp.write(&globalRandCell)
		}
	}
	stdStubs["math/rand.Seed"] = func(fr *frame, a []value) value { touchGlobalRand(fr); return nil }
	stdStubs["math/rand.Intn"] = func(fr *frame, a []value) value {
		touchGlobalRand(fr)
		p := fr.i.p
		n := a[0].(int)
		if n <= 0 {
			panic("invalid argument to Intn")
		}
		c := p.choice(n)
		p.draws = append(p.draws, Draw{Name: "rand.Intn", Kind: "choice", Cval: uint64(c)})
		return c
	}
	stdStubs["math/rand.Float64"] = func(fr *frame, a []value) value {
		touchGlobalRand(fr)
		p := fr.i.p
		c := p.choice(2)
		p.draws = append(p.draws, Draw{Name: "rand.Float64", Kind: "choice", Cval: uint64(c)})
		return []float64{0.25, 0.75}[c]
	}
	stdStubs["fmt.Errorf"] = func(fr *frame, a []value) value {
		return mkError(fr, miniFormat(str(a[0]), a[1].([]value)))
	}
	stdStubs["fmt.Sprintf"] = func(fr *frame, a []value) value {
		return miniFormat(str(a[0]), a[1].([]value))
	}
	stdStubs["fmt.Sprint"] = func(fr *frame, a []value) value {
		var sb strings.Builder
		for _, x := range a[0].([]value) {
			sb.WriteString(miniFormat("%v", []value{x}))
		}
		return sb.String()
	}
	stdStubs["fmt.Println"] = func(fr *frame, a []value) value { return tuple{0, iface{}} }
	stdStubs["fmt.Printf"] = func(fr *frame, a []value) value { return tuple{0, iface{}} }
	stdStubs["fmt.Print"] = func(fr *frame, a []value) value { return tuple{0, iface{}} }
	stdStubs["errors.New"] = func(fr *frame, a []value) value { return mkError(fr, str(a[0])) }
	// fmt.Fprintf / Fprint: format, then exactly one Write on w
	fwrite := func(fr *frame, w value, s string) value {
		wi := w.(iface)
		if wi.t == nil {
			panic("runtime error: invalid memory address or nil pointer dereference (nil io.Writer)")
		}
		wm := fr.i.prog.LookupMethod(wi.t, nil, "Write")
		if wm == nil {
			panic(engineError{"fmt.Fprint*: writer has no Write method"})
		}
		buf := make([]value, len(s))
		for k := 0; k < len(s); k++ {
			buf[k] = s[k]
		}
		r := call(fr.i, fr, 0, wm, []value{wi.v, buf})
		return r
	}
	stdStubs["fmt.Fprintf"] = func(fr *frame, a []value) value {
		return fwrite(fr, a[0], miniFormat(str(a[1]), a[2].([]value)))
	}
	stdStubs["fmt.Fprint"] = func(fr *frame, a []value) value {
		var sb strings.Builder
		for _, x := range a[1].([]value) {
			sb.WriteString(miniFormat("%v", []value{x}))
		}
		return fwrite(fr, a[0], sb.String())
	}
	stdStubs["fmt.Fprintln"] = func(fr *frame, a []value) value {
		var sb strings.Builder
		for k, x := range a[1].([]value) {
			if k > 0 {
				sb.WriteByte(' ')
			}
			sb.WriteString(miniFormat("%v", []value{x}))
		}
		sb.WriteByte('\n')
		return fwrite(fr, a[0], sb.String())
	}
}

func sortSlice(fr *frame, a []value, algo string) value {
	x := a[0].(iface).v.([]value)
	less := a[1]
	swap := hostFunc(func(_ *frame, args []value) value {
		i, j := args[0].(int), args[1].(int)
		x[i], x[j] = x[j], x[i]
		return nil
	})
	sp := fr.i.P.Pkgs["sort"]
	fn := sp.Func(algo)
	if fn == nil {
		panic(engineError{"sort." + algo + " not found"})
	}
	ls := structure{less, swap} // sort.lessSwap{Less, Swap}
	n := len(x)
	if algo == "pdqsort_func" {
		limit := 0
		for v := uint(n); v != 0; v >>= 1 {
			limit++
		}
		call(fr.i, fr, 0, fn, []value{ls, 0, n, limit})
	} else {
		call(fr.i, fr, 0, fn, []value{ls, n})
	}
	return nil
}
