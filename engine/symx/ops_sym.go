package symx

// Hooks that route interpreter operators through the symbolic layer.

import (
	"fmt"
	"go/token"
	"go/types"
	"runtime"

	"golang.org/x/tools/go/ssa"

	"verif/engine/smt"
)

func mustDeref(t types.Type) types.Type {
	if p, ok := t.Underlying().(*types.Pointer); ok {
		return p.Elem()
	}
	// core type of a type parameter etc. cannot occur: generics are instantiated
	panic(fmt.Sprintf("mustDeref: not a pointer: %v", t))
}

func hostStack() string {
	buf := make([]byte, 1<<14)
	n := runtime.Stack(buf, false)
	return "\n" + string(buf[:n])
}

func (i *interpreter) unopS(instr *ssa.UnOp, x value) value {
	switch xv := x.(type) {
	case sym:
		return i.p.symUnop(instr.Op, xv)
	case *value:
		if instr.Op == token.MUL && i.p.foot != nil && i.p.foot.cur != 0 {
			i.p.foot.site = instr.Parent().String()
			return i.loadF(mustDeref(instr.X.Type()), xv)
		}
	}
	return unop(instr, x)
}

func (i *interpreter) binopS(op token.Token, t types.Type, x, y value) value {
	switch xv := x.(type) {
	case sym:
		if _, ok := y.(symFloat); ok {
			break
		}
		return i.p.symBinop(op, t, x, y)
	case symFloat:
		return i.p.symFloatCmp(op, xv, y, false)
	case symString:
		return i.p.symStringBinop(op, xv, y)
	case structure, array, iface:
		if (op == token.EQL || op == token.NEQ) && (containsSym(x) || containsSym(y)) {
			r := i.p.symEquals(t, x, y)
			if op == token.NEQ {
				return i.p.notV(r)
			}
			return r
		}
	}
	switch yv := y.(type) {
	case sym:
		return i.p.symBinop(op, t, x, y)
	case symFloat:
		return i.p.symFloatCmp(op, yv, x, true)
	case symString:
		if xs, ok := x.(string); ok {
			return i.p.symStringBinop(op, strToSym(xs), y)
		}
	}
	return binop(op, t, x, y)
}

func (p *Path) notV(v value) value {
	if b, ok := v.(bool); ok {
		return !b
	}
	return box(p.ctx.Not(v.(sym).t), types.Bool)
}

// symFloatCmp compares float64(x) (x a symbolic integer, exact) with a
// concrete float constant; swapped means the constant is the left operand.
func (p *Path) symFloatCmp(op token.Token, f symFloat, other value, swapped bool) value {
	var cf float64
	switch o := other.(type) {
	case float64:
		cf = o
	case float32:
		cf = float64(o)
	default:
		panic(engineError{fmt.Sprintf("float operation on symbolic value with %T", other)})
	}
	if swapped {
		switch op {
		case token.LSS:
			op = token.GTR
		case token.GTR:
			op = token.LSS
		case token.LEQ:
			op = token.GEQ
		case token.GEQ:
			op = token.LEQ
		}
	}
	c := p.ctx
	w, signed := kindInfo(f.x.k)
	if signed || w != 64 && w != 32 && w != 16 && w != 8 {
		panic(engineError{"symbolic float comparison: only unsigned sources supported"})
	}
	if cf < 0 || cf >= 1<<53 {
		panic(engineError{"symbolic float comparison: constant outside [0, 2^53)"})
	}
	// exactness of float64(x) requires x < 2^53: checked as an obligation-free branch
	x := f.x.t
	if w == 64 {
		small := c.Cmp(smt.KUlt, x, c.BV(1<<53, 64))
		if !p.branch(small) {
			panic(engineError{"symbolic float conversion of a value >= 2^53 (outside the modelled range)"})
		}
	}
	fl := uint64(cf)           // floor
	isInt := float64(fl) == cf // cf integral
	k := func(v uint64) *smt.Term { return c.BV(v, w) }
	var r *smt.Term
	switch op {
	case token.GTR: // x > cf  <=> x > floor(cf)
		r = c.Cmp(smt.KUlt, k(fl), x)
	case token.GEQ: // x >= cf <=> x >= ceil(cf)
		if isInt {
			r = c.Cmp(smt.KUle, k(fl), x)
		} else {
			r = c.Cmp(smt.KUlt, k(fl), x)
		}
	case token.LSS: // x < cf <=> x < ceil(cf)
		if isInt {
			r = c.Cmp(smt.KUlt, x, k(fl))
		} else {
			r = c.Cmp(smt.KUle, x, k(fl))
		}
	case token.LEQ:
		r = c.Cmp(smt.KUle, x, k(fl))
	case token.EQL:
		if isInt {
			r = c.Eq(x, k(fl))
		} else {
			r = c.False
		}
	case token.NEQ:
		if isInt {
			r = c.Not(c.Eq(x, k(fl)))
		} else {
			r = c.True
		}
	default:
		panic(engineError{"float arithmetic on symbolic value: " + op.String()})
	}
	return box(r, types.Bool)
}

func (i *interpreter) convS(t_dst, t_src types.Type, x value) value {
	switch xv := x.(type) {
	case sym:
		if b, ok := t_dst.Underlying().(*types.Basic); ok {
			if b.Kind() == types.String {
				// string(rune) of a symbolic value
				return i.p.runeToString(xv)
			}
			return i.p.symConv(b.Kind(), xv)
		}
		panic(engineError{fmt.Sprintf("conversion of symbolic scalar to %v", t_dst)})
	case symFloat:
		if b, ok := t_dst.Underlying().(*types.Basic); ok && b.Info()&types.IsFloat != 0 {
			return x
		}
		panic(engineError{"conversion of symbolic float"})
	case symString:
		switch d := t_dst.Underlying().(type) {
		case *types.Basic:
			if d.Kind() == types.String {
				return x
			}
		case *types.Slice:
			if b, ok := d.Elem().Underlying().(*types.Basic); ok && b.Kind() == types.Byte {
				out := make([]value, len(xv))
				copy(out, xv)
				return out
			}
		}
		panic(engineError{fmt.Sprintf("conversion of symbolic string to %v", t_dst)})
	case []value:
		// []byte -> string with symbolic bytes
		if b, ok := t_dst.Underlying().(*types.Basic); ok && b.Kind() == types.String {
			for _, e := range xv {
				if isSym(e) {
					out := make(symString, len(xv))
					copy(out, xv)
					return out
				}
			}
		}
	}
	return conv(t_dst, t_src, x)
}

func (i *interpreter) sliceS(x, lo, hi, max value) value {
	p := i.p
	var Len, Cap int
	switch xv := x.(type) {
	case string:
		Len = len(xv)
		Cap = Len
	case symString:
		Len = len(xv)
		Cap = Len
	case []value:
		Len = len(xv)
		Cap = cap(xv)
	case *value:
		a := (*xv).(array)
		Len = len(a)
		Cap = cap(a)
	}
	// Go checks 0 <= lo <= hi <= max <= cap
	if isSym(max) {
		max = p.size(max, Cap, "slice bounds")
	}
	m := Cap
	if max != nil {
		m = int(asInt64(max))
	}
	if isSym(hi) {
		lim := m
		if _, isStr := x.(symString); isStr {
			lim = Len
		}
		if _, isStr := x.(string); isStr {
			lim = Len
		}
		hi = p.size(hi, lim, "slice bounds")
	}
	h := Len
	if hi != nil {
		h = int(asInt64(hi))
	}
	if isSym(lo) {
		lo = p.size(lo, h, "slice bounds")
	}
	if xs, ok := x.(symString); ok {
		l := 0
		if lo != nil {
			l = int(asInt64(lo))
		}
		return normStr(xs[l:h])
	}
	return slice(x, lo, hi, max)
}

const maxAlloc = 1 << 26

func (i *interpreter) makeSliceS(instr *ssa.MakeSlice, ln, cp value) value {
	p := i.p
	if isSym(cp) {
		cp = p.size(cp, maxAlloc, "makeslice: cap")
	}
	c := asInt64(cp)
	if c < 0 || c > maxAlloc {
		if c < 0 {
			panic(rtPanic("makeslice: cap out of range"))
		}
		panic(rtPanic("makeslice: len out of range (engine allocation limit)"))
	}
	if isSym(ln) {
		ln = p.size(ln, int(c), "makeslice: len")
	}
	l := asInt64(ln)
	if l < 0 || l > c {
		panic(rtPanic("makeslice: len out of range"))
	}
	sl := make([]value, c)
	tElt := instr.Type().Underlying().(*types.Slice).Elem()
	z := zero(tElt)
	switch z.(type) {
	case structure, array:
		for k := range sl {
			sl[k] = zero(tElt)
		}
	default:
		for k := range sl {
			sl[k] = z
		}
	}
	return sl[:l]
}

// ---------------------------------------------------------------- symbolic strings

// symString is a string some of whose bytes are symbolic (each element is a
// uint8 or a sym of kind Uint8).  Length is always concrete.
type symString []value

func strToSym(s string) symString {
	out := make(symString, len(s))
	for i := 0; i < len(s); i++ {
		out[i] = s[i]
	}
	return out
}

// normStr returns a plain string when every byte is concrete.
func normStr(s symString) value {
	for _, e := range s {
		if isSym(e) {
			return s
		}
	}
	b := make([]byte, len(s))
	for i, e := range s {
		b[i] = e.(uint8)
	}
	return string(b)
}

func (p *Path) runeToString(x sym) value {
	// string(r) for r < 0x80 is the single byte r; other values need UTF-8 encoding of a symbolic rune
	c := p.ctx
	w, _ := kindInfo(x.k)
	t := x.t
	ascii := c.Cmp(smt.KUlt, t, c.BV(0x80, w))
	if !p.branch(ascii) {
		panic(engineError{"string(rune) of a symbolic value >= 0x80"})
	}
	var b *smt.Term
	if w > 8 {
		b = c.Extract(t, 7, 0)
	} else {
		b = t
	}
	return symString{box(b, types.Uint8)}
}

func (p *Path) byteTerm(v value) *smt.Term {
	t, _ := p.termOf(v)
	return t
}

func (p *Path) symStringEq(x symString, y value) value {
	var ys symString
	switch yv := y.(type) {
	case symString:
		ys = yv
	case string:
		ys = strToSym(yv)
	default:
		panic(engineError{fmt.Sprintf("symStringEq with %T", y)})
	}
	if len(x) != len(ys) {
		return false
	}
	c := p.ctx
	acc := c.True
	for i := range x {
		acc = c.And(acc, c.Eq(p.byteTerm(x[i]), p.byteTerm(ys[i])))
	}
	return box(acc, types.Bool)
}

// symStringLess returns x < y (strict) lexicographically as a term.
func (p *Path) symStringLess(x, y symString) *smt.Term {
	c := p.ctx
	n := len(x)
	if len(y) < n {
		n = len(y)
	}
	// from the back: less_i = x[i]<y[i] || (x[i]==y[i] && less_{i+1}); base: len(x) < len(y)
	acc := c.Bool(len(x) < len(y))
	for i := n - 1; i >= 0; i-- {
		xi, yi := p.byteTerm(x[i]), p.byteTerm(y[i])
		acc = c.Or(c.Cmp(smt.KUlt, xi, yi), c.And(c.Eq(xi, yi), acc))
	}
	return acc
}

func (p *Path) symStringBinop(op token.Token, x symString, y value) value {
	var ys symString
	switch yv := y.(type) {
	case symString:
		ys = yv
	case string:
		ys = strToSym(yv)
	default:
		panic(engineError{fmt.Sprintf("symbolic string %s %T", op, y)})
	}
	c := p.ctx
	switch op {
	case token.ADD:
		out := make(symString, 0, len(x)+len(ys))
		out = append(out, x...)
		out = append(out, ys...)
		return normStr(out)
	case token.EQL:
		return p.symStringEq(x, ys)
	case token.NEQ:
		return p.notV(p.symStringEq(x, ys))
	case token.LSS:
		return box(p.symStringLess(x, ys), types.Bool)
	case token.GTR:
		return box(p.symStringLess(ys, x), types.Bool)
	case token.LEQ:
		return box(c.Not(p.symStringLess(ys, x)), types.Bool)
	case token.GEQ:
		return box(c.Not(p.symStringLess(x, ys)), types.Bool)
	}
	panic(engineError{"symbolic string op " + op.String()})
}
