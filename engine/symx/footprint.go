package symx

// Footprint log: which memory cells each "actor" region reads and writes.
// A cell is one boxed value slot (*value): a variable, a struct field, a
// slice/array element.  Used by the C19 non-interference checks.

import (
	"fmt"
	"sort"
)

type footprint struct {
	cur    int // 0 = outside any actor
	reads  map[int]map[*value]string
	writes map[int]map[*value]string
	site   string
}

type footResult struct {
	Actors map[int][2]int // reads, writes
}

func newFootprint() *footprint {
	return &footprint{reads: map[int]map[*value]string{}, writes: map[int]map[*value]string{}}
}

func (f *footprint) begin(id int) {
	f.cur = id
	if f.reads[id] == nil {
		f.reads[id] = map[*value]string{}
		f.writes[id] = map[*value]string{}
	}
}
func (f *footprint) end() { f.cur = 0 }

func (f *footprint) read(a *value) {
	if f.cur != 0 && a != nil {
		if _, ok := f.reads[f.cur][a]; !ok {
			f.reads[f.cur][a] = f.site
		}
	}
}
func (f *footprint) write(a *value) {
	if f.cur != 0 && a != nil {
		if _, ok := f.writes[f.cur][a]; !ok {
			f.writes[f.cur][a] = f.site
		}
	}
}

// conflict returns a description of a cell written by one actor and read or
// written by another, or "".
func (f *footprint) conflict() string {
	ids := []int{}
	for id := range f.writes {
		ids = append(ids, id)
	}
	sort.Ints(ids)
	for _, a := range ids {
		for _, b := range ids {
			if a == b {
				continue
			}
			for cell, ws := range f.writes[a] {
				if rs, ok := f.reads[b][cell]; ok {
					return fmt.Sprintf("cell written by actor %d (in %s) is read by actor %d (in %s)", a, ws, b, rs)
				}
				if a < b {
					if ws2, ok := f.writes[b][cell]; ok {
						return fmt.Sprintf("cell written by actor %d (in %s) is also written by actor %d (in %s)", a, ws, b, ws2)
					}
				}
			}
		}
	}
	return ""
}

func (f *footprint) result() *footResult {
	r := &footResult{Actors: map[int][2]int{}}
	for id := range f.reads {
		r.Actors[id] = [2]int{len(f.reads[id]), len(f.writes[id])}
	}
	return r
}
