package symx

// One explored path: path condition, model, decision log, obligations.

import (
	"fmt"
	"go/token"
	"go/types"
	"strings"
	"time"

	"verif/engine/smt"
)

// Decision is one entry of a path's decision string.
type Decision struct {
	Kind  byte   // 'b' branch, 'c' concretize, 'k' choice
	Taken bool   // 'b': side taken; 'c': value == Val (true) or != Val (false)
	Val   uint64 // 'c': the value; 'k': the alternative chosen
}

func (d Decision) String() string {
	switch d.Kind {
	case 'b':
		if d.Taken {
			return "T"
		}
		return "F"
	case 'c':
		if d.Taken {
			return fmt.Sprintf("=%d", d.Val)
		}
		return fmt.Sprintf("!%d", d.Val)
	}
	return fmt.Sprintf("k%d", d.Val)
}

// WorkItem identifies a path prefix still to be explored.
type WorkItem struct {
	Prefix []Decision
	Model  smt.Model
}

// Draw is one symbolic input drawn by the harness.
type Draw struct {
	Name string // harness-given label
	Var  string // solver variable name ("" for concrete draws such as Choice)
	Kind string // "int", "uint64", "byte", "bool", "bit", "choice"
	W    uint8
	Cval uint64 // for choice
}

// Violation is a failed obligation or unexpected panic with its witness.
type Violation struct {
	Harness   string
	Msg       string
	Kind      string // "check", "panic", "steps"
	Inputs    []ReplayInput
	Decisions string
}

// digestRec is an observable recorded by rt.Digest; its value under the path's
// final model is what the native replay of that path must compute.
type digestRec struct {
	name string
	t    *smt.Term
}

type ReplayDigest struct {
	Name string `json:"name"`
	Val  uint64 `json:"val"`
}

type ReplayInput struct {
	Name string `json:"name"`
	Kind string `json:"kind"`
	Val  uint64 `json:"val"`
}

// sentinel panics (never recoverable by target code)
type pathEnd struct{ reason string } // path finished early: "assume", "violation", "infeasible"
type engineError struct{ msg string }

func (e engineError) Error() string { return "engine error: " + e.msg }

func isSentinel(p interface{}) bool {
	switch p.(type) {
	case pathEnd, engineError:
		return true
	}
	return false
}

type PathStats struct {
	Steps          int64
	Decisions      int
	NewDecisions   int
	Obligations    int
	ObFolded       int // discharged by constant folding / concrete evaluation
	ObUnsat        int // discharged by the solver (unsat)
	ObUnknown      int
	FeasUnknown    int
	Merged         int
	ReachLabels    map[string]bool
	CheckSites     map[string]bool
	ExistsQueries  int
	WatchObl       int
	SolverQueries  int
	SolverFastPath int
	UnknownMsgs    []string
}

type Path struct {
	ctx         *smt.Ctx
	pc          []*smt.Term
	pcSet       map[int32]bool
	pins        map[string]uint64
	substMem    map[int32]*smt.Term
	model       smt.Model
	ev          *smt.Evaluator
	prefix      []Decision
	pos         int
	taken       []Decision
	pending     []WorkItem
	solver      *smt.Solver
	varMemo     map[int32][]*smt.Term
	draws       []Draw
	harness     string
	maxSteps    int64
	stats       PathStats
	viol        *Violation
	outcome     string
	watch       map[string]bool // functions under wrap-around watch
	watching    int
	watchAcc    *smt.Term
	bounds      map[string][2]int64 // declared signed domains of 64-bit variables
	watchHere   bool
	speculating int
	noMerge     bool
	existsVars  map[string]bool
	inExists    bool
	actor       int
	foot        *footprint
	deadline    time.Time // wall budget of the harness: past it queries are answered unknown without asking
	blobs       []gobBlob
	digests     []digestRec
	funcs       map[string]bool
}

func newPath(item WorkItem, solver *smt.Solver, harness string, maxSteps int64) *Path {
	p := &Path{
		ctx:      smt.NewCtx(),
		pcSet:    map[int32]bool{},
		pins:     map[string]uint64{},
		substMem: map[int32]*smt.Term{},
		varMemo:  map[int32][]*smt.Term{},
		model:    smt.Model{},
		prefix:   item.Prefix,
		solver:   solver,
		harness:  harness,
		maxSteps: maxSteps,
	}
	for k, v := range item.Model {
		p.model[k] = v
	}
	p.ev = smt.NewEvaluator(p.model)
	p.stats.ReachLabels = map[string]bool{}
	p.stats.CheckSites = map[string]bool{}
	return p
}

func (p *Path) setModel(m smt.Model) {
	// keep values of variables the solver did not mention
	for k, v := range m {
		p.model[k] = v
	}
	p.ev.Invalidate()
}

func (p *Path) resolve(t *smt.Term) *smt.Term {
	if t.IsConst() || len(p.pins) == 0 {
		return t
	}
	return p.ctx.Subst(t, p.pins, p.substMem)
}

func (p *Path) addPC(c *smt.Term) {
	if c.IsTrue() {
		return
	}
	if c.Kind == smt.KAnd {
		for _, x := range c.A {
			p.addPC(x)
		}
		return
	}
	if p.pcSet[c.ID] {
		return
	}
	p.pcSet[c.ID] = true
	p.pc = append(p.pc, c)
	// pin extraction
	switch {
	case c.Kind == smt.KVar:
		p.pin(c.Name, 1)
	case c.Kind == smt.KNot && c.A[0].Kind == smt.KVar:
		p.pin(c.A[0].Name, 0)
	case c.Kind == smt.KEq && c.A[1].Kind == smt.KConst:
		if name, v, ok := solveForVar(c.A[0], c.A[1].Val); ok {
			p.pin(name, v)
		}
	}
}

// solveForVar inverts a chain of invertible unary operations: t == k  <=>  var == v.
func solveForVar(t *smt.Term, k uint64) (string, uint64, bool) {
	for {
		switch t.Kind {
		case smt.KVar:
			return t.Name, k & maskW(t.W), true
		case smt.KAdd:
			if t.A[1].Kind == smt.KConst {
				k = (k - t.A[1].Val) & maskW(t.W)
				t = t.A[0]
				continue
			}
			if t.A[0].Kind == smt.KConst {
				k = (k - t.A[0].Val) & maskW(t.W)
				t = t.A[1]
				continue
			}
			return "", 0, false
		case smt.KBXor:
			if t.A[1].Kind == smt.KConst {
				k = k ^ t.A[1].Val
				t = t.A[0]
				continue
			}
			return "", 0, false
		case smt.KBNot:
			k = ^k & maskW(t.W)
			t = t.A[0]
			continue
		case smt.KNeg:
			k = -k & maskW(t.W)
			t = t.A[0]
			continue
		case smt.KZext:
			in := t.A[0]
			if k > maskW(in.W) {
				return "", 0, false // equation is unsatisfiable; leave it to the solver
			}
			t = in
			continue
		case smt.KSext:
			in := t.A[0]
			lowk := k & maskW(in.W)
			// must sign-extend back to k
			sh := 64 - uint(in.W)
			if uint64(int64(lowk<<sh)>>sh)&maskW(t.W) != k {
				return "", 0, false
			}
			k = lowk
			t = in
			continue
		case smt.KIte:
			// ite(b, k1, k2) == k with k1 != k2 constants pins the bool
			if t.A[0].Kind == smt.KVar && t.A[1].Kind == smt.KConst && t.A[2].Kind == smt.KConst && t.A[1].Val != t.A[2].Val {
				if k == t.A[1].Val {
					return t.A[0].Name, 1, true
				}
				if k == t.A[2].Val {
					return t.A[0].Name, 0, true
				}
			}
			return "", 0, false
		}
		return "", 0, false
	}
}

func (p *Path) pin(name string, v uint64) {
	if _, ok := p.pins[name]; ok {
		return
	}
	p.pins[name] = v
	p.substMem = map[int32]*smt.Term{}
}

// varsOf returns the free variables of t (memoised per term).
func (p *Path) varsOf(t *smt.Term) []*smt.Term {
	if v, ok := p.varMemo[t.ID]; ok {
		return v
	}
	var out []*smt.Term
	smt.CollectVars(t, map[int32]bool{}, &out)
	p.varMemo[t.ID] = out
	return out
}

// query asks whether pc ∧ extra is satisfiable.  Only the conjuncts of pc
// that (transitively) share variables with extra are sent (independence
// slicing); the values of the other variables stay as in the current model.
func (p *Path) query(extra *smt.Term) (smt.Result, smt.Model) {
	need := map[string]bool{}
	for _, v := range p.varsOf(extra) {
		need[v.Name] = true
	}
	used := make([]bool, len(p.pc))
	asserts := []*smt.Term{extra}
	for changed := true; changed; {
		changed = false
		for k, c := range p.pc {
			if used[k] {
				continue
			}
			vs := p.varsOf(c)
			hit := false
			for _, v := range vs {
				if need[v.Name] {
					hit = true
					break
				}
			}
			if !hit {
				continue
			}
			used[k] = true
			changed = true
			asserts = append(asserts, c)
			for _, v := range vs {
				need[v.Name] = true
			}
		}
	}
	m := smt.Model{}
	if !p.deadline.IsZero() && time.Now().After(p.deadline) {
		// the harness's wall budget is spent: the run is inconclusive anyway, do not start
		// another (possibly minutes-long) solver call on this path
		return smt.Unknown, m
	}
	p.stats.SolverQueries++
	r := p.solver.CheckQuery(asserts, m)
	return r, m
}

func (p *Path) fork(d Decision, m smt.Model) {
	pre := make([]Decision, len(p.taken)+1)
	copy(pre, p.taken)
	pre[len(p.taken)] = d
	// the forked path needs values for every variable: solver model over current model
	full := smt.Model{}
	for k, v := range p.model {
		full[k] = v
	}
	for k, v := range m {
		full[k] = v
	}
	p.pending = append(p.pending, WorkItem{Prefix: pre, Model: full})
}

func (p *Path) follow(kind byte) (Decision, bool) {
	if p.pos < len(p.prefix) {
		d := p.prefix[p.pos]
		if d.Kind != kind {
			panic(engineError{fmt.Sprintf("re-execution diverged at decision %d: recorded %c, now %c (non-deterministic target or engine state leak)", p.pos, d.Kind, kind)})
		}
		p.pos++
		p.taken = append(p.taken, d)
		p.stats.Decisions++
		return d, true
	}
	return Decision{}, false
}

// ival returns signed 64-bit bounds of a 64-bit term when they follow from the
// declared domains of its variables by interval arithmetic (no wrap-around).
func (p *Path) ival(t *smt.Term) (lo, hi int64, ok bool) {
	if t.W != 64 {
		return 0, 0, false
	}
	switch t.Kind {
	case smt.KConst:
		return int64(t.Val), int64(t.Val), true
	case smt.KVar:
		b, ok := p.bounds[t.Name]
		return b[0], b[1], ok
	case smt.KAdd:
		l1, h1, ok1 := p.ival(t.A[0])
		l2, h2, ok2 := p.ival(t.A[1])
		if !ok1 || !ok2 {
			return 0, 0, false
		}
		lo, hi = l1+l2, h1+h2
		// overflow check of both sums
		if (l2 > 0 && lo < l1) || (l2 < 0 && lo > l1) || (h2 > 0 && hi < h1) || (h2 < 0 && hi > h1) {
			return 0, 0, false
		}
		return lo, hi, true
	}
	return 0, 0, false
}

// decideByBounds decides comparisons whose operands have disjoint / ordered intervals.
func (p *Path) decideByBounds(c *smt.Term) (val bool, ok bool) {
	if len(p.bounds) == 0 {
		return false, false
	}
	neg := false
	if c.Kind == smt.KNot {
		neg = true
		c = c.A[0]
	}
	switch c.Kind {
	case smt.KSlt, smt.KSle, smt.KUlt, smt.KUle, smt.KEq:
	default:
		return false, false
	}
	l1, h1, ok1 := p.ival(c.A[0])
	l2, h2, ok2 := p.ival(c.A[1])
	if !ok1 || !ok2 {
		return false, false
	}
	if (c.Kind == smt.KUlt || c.Kind == smt.KUle) && (l1 < 0 || l2 < 0) {
		return false, false
	}
	var r, known bool
	switch c.Kind {
	case smt.KSlt, smt.KUlt:
		if h1 < l2 {
			r, known = true, true
		} else if l1 >= h2 {
			r, known = false, true
		}
	case smt.KSle, smt.KUle:
		if h1 <= l2 {
			r, known = true, true
		} else if l1 > h2 {
			r, known = false, true
		}
	case smt.KEq:
		if h1 < l2 || h2 < l1 {
			r, known = false, true
		}
	}
	if !known {
		return false, false
	}
	return r != neg, true
}

// branch is a decision point on a symbolic condition.
func (p *Path) branch(c *smt.Term) bool {
	c = p.resolve(c)
	if c.IsConst() {
		return c.Val != 0
	}
	if v, ok := p.decideByBounds(c); ok {
		p.stats.SolverFastPath++
		return v
	}
	if p.pcSet[c.ID] {
		return true
	}
	nc := p.ctx.Not(c)
	if p.pcSet[nc.ID] {
		return false
	}
	if p.inExists {
		panic(engineError{"symbolic branch inside Exists body (use rt.And/Or/Ite to stay branch-free): " + trunc(c.String(), 200)})
	}
	if p.speculating > 0 {
		panic(mergeAbort{"branch"})
	}
	if d, ok := p.follow('b'); ok {
		if d.Taken {
			p.addPC(c)
		} else {
			p.addPC(nc)
		}
		return d.Taken
	}
	cur := p.ev.Eval(c) != 0
	other := nc
	if !cur {
		other = c
	}
	r, m := p.query(other)
	switch r {
	case smt.Sat:
		p.fork(Decision{Kind: 'b', Taken: !cur}, m)
	case smt.Unknown:
		p.stats.FeasUnknown++
	}
	p.taken = append(p.taken, Decision{Kind: 'b', Taken: cur})
	p.stats.Decisions++
	p.stats.NewDecisions++
	if cur {
		p.addPC(c)
	} else {
		p.addPC(nc)
	}
	return cur
}

// concretize forks over the feasible values of t and returns the one taken.
func (p *Path) concretize(t *smt.Term) uint64 {
	for {
		t = p.resolve(t)
		if t.IsConst() {
			return t.Val
		}
		if p.inExists {
			panic(engineError{"concretisation inside Exists body: " + trunc(t.String(), 200)})
		}
		if p.speculating > 0 {
			panic(mergeAbort{"concretize"})
		}
		if d, ok := p.follow('c'); ok {
			kv := p.constOf(t, d.Val)
			if d.Taken {
				p.addPC(p.ctx.Eq(t, kv))
				return d.Val
			}
			p.addPC(p.ctx.Not(p.ctx.Eq(t, kv)))
			continue
		}
		v := p.ev.Eval(t)
		kv := p.constOf(t, v)
		eq := p.ctx.Eq(t, kv)
		r, m := p.query(p.ctx.Not(eq))
		switch r {
		case smt.Sat:
			p.fork(Decision{Kind: 'c', Taken: false, Val: v}, m)
		case smt.Unknown:
			p.stats.FeasUnknown++
		}
		p.taken = append(p.taken, Decision{Kind: 'c', Taken: true, Val: v})
		p.stats.Decisions++
		p.stats.NewDecisions++
		p.addPC(eq)
		return v
	}
}

func (p *Path) constOf(t *smt.Term, v uint64) *smt.Term {
	if t.W == 0 {
		return p.ctx.Bool(v != 0)
	}
	return p.ctx.BV(v, t.W)
}

// choice forks k ways without consulting the solver.
func (p *Path) choice(k int) int {
	if k <= 0 {
		panic(pathEnd{"assume"})
	}
	if k == 1 {
		return 0
	}
	if d, ok := p.follow('k'); ok {
		return int(d.Val)
	}
	for a := k - 1; a >= 1; a-- {
		p.fork(Decision{Kind: 'k', Val: uint64(a)}, nil)
	}
	p.taken = append(p.taken, Decision{Kind: 'k', Val: 0})
	p.stats.Decisions++
	p.stats.NewDecisions++
	return 0
}

// assume restricts the path; the path is dropped when c cannot hold.
func (p *Path) assume(c *smt.Term) {
	c = p.resolve(c)
	if c.IsConst() {
		if c.Val == 0 {
			panic(pathEnd{"assume"})
		}
		return
	}
	if p.ev.Eval(c) != 0 {
		p.stats.SolverFastPath++
		p.addPC(c)
		return
	}
	r, m := p.query(c)
	switch r {
	case smt.Sat:
		p.setModel(m)
		p.addPC(c)
	case smt.Unsat:
		panic(pathEnd{"assume"})
	default:
		p.stats.FeasUnknown++
		panic(pathEnd{"assume-unknown"})
	}
}

// check is one obligation: pc ∧ ¬c must be unsatisfiable.
func (p *Path) check(c *smt.Term, site, msg string) {
	p.stats.Obligations++
	p.stats.CheckSites[site] = true
	c = p.resolve(c)
	if c.IsConst() {
		if c.Val == 0 {
			p.violate("check", msg, nil)
		}
		p.stats.ObFolded++
		return
	}
	if p.ev.Eval(c) == 0 {
		p.violate("check", msg, nil)
	}
	r, m := p.query(p.ctx.Not(c))
	switch r {
	case smt.Unsat:
		p.stats.ObUnsat++
		p.addPC(c) // implied; lets later terms fold
	case smt.Sat:
		p.violate("check", msg, m)
	default:
		p.stats.ObUnknown++
		p.stats.UnknownMsgs = append(p.stats.UnknownMsgs, msg)
	}
}

func (p *Path) violate(kind, msg string, m smt.Model) {
	if m != nil {
		p.setModel(m)
	}
	v := &Violation{Harness: p.harness, Msg: msg, Kind: kind, Decisions: p.decisionString()}
	for _, d := range p.draws {
		ri := ReplayInput{Name: d.Name, Kind: d.Kind}
		if d.Var != "" {
			ri.Val = p.model[d.Var]
		} else {
			ri.Val = d.Cval
		}
		v.Inputs = append(v.Inputs, ri)
	}
	p.viol = v
	panic(pathEnd{"violation"})
}

func (p *Path) decisionString() string {
	var sb strings.Builder
	for i, d := range p.taken {
		if i > 0 {
			sb.WriteByte(' ')
		}
		sb.WriteString(d.String())
		if sb.Len() > 4000 {
			sb.WriteString(" …")
			break
		}
	}
	return sb.String()
}

// draw creates a fresh symbolic scalar.  lo/hi (inclusive, interpreted in the
// kind's signedness) restrict its domain when hasDom.
func (p *Path) draw(label, kind string, k types.BasicKind, hasDom bool, lo, hi uint64) value {
	w, signed := kindInfo(k)
	name := fmt.Sprintf("v%d_%s", len(p.draws), label)
	t := p.ctx.Var(name, w)
	p.draws = append(p.draws, Draw{Name: label, Var: name, Kind: kind, W: w})
	if p.inExists {
		p.existsVars[name] = true
	}
	if _, ok := p.model[name]; !ok {
		if hasDom {
			p.model[name] = lo & maskW(w)
		} else {
			p.model[name] = 0
		}
	}
	if hasDom && w == 64 && signed && int64(lo) <= int64(hi) {
		if p.bounds == nil {
			p.bounds = map[string][2]int64{}
		}
		p.bounds[name] = [2]int64{int64(lo), int64(hi)}
	}
	if hasDom && w > 0 {
		c := p.ctx
		var cond *smt.Term
		if signed {
			cond = c.And(c.Cmp(smt.KSle, c.BV(lo, w), t), c.Cmp(smt.KSle, t, c.BV(hi, w)))
		} else {
			cond = c.And(c.Cmp(smt.KUle, c.BV(lo, w), t), c.Cmp(smt.KUle, t, c.BV(hi, w)))
		}
		if lo == hi {
			return concOfKind(k, normBits(lo, k))
		}
		p.assume(cond)
	}
	return sym{t, k}
}

func maskW(w uint8) uint64 {
	if w == 0 {
		return 1
	}
	if w >= 64 {
		return ^uint64(0)
	}
	return (uint64(1) << w) - 1
}

// index resolves a (possibly symbolic) index against length n: an
// out-of-range value is a feasible path that takes Go's run-time panic.
func (p *Path) index(idx value, n int, what string) int {
	s, ok := idx.(sym)
	if !ok {
		return int(asInt64(idx))
	}
	c := p.ctx
	t := s.t
	w, signed := kindInfo(s.k)
	// normalise to 64-bit signed view
	if w < 64 {
		if signed {
			t = c.Sext(t, 64)
		} else {
			t = c.Zext(t, 64)
		}
	}
	inb := c.Cmp(smt.KUlt, t, c.BV(uint64(n), 64)) // unsigned compare covers negatives
	if !p.branch(inb) {
		panic(rtPanic(what + " out of range (symbolic)"))
	}
	return int(p.concretize(t))
}

// size resolves a symbolic length/capacity/bound in [0, max].
func (p *Path) size(v value, max int, what string) int {
	s, ok := v.(sym)
	if !ok {
		return int(asInt64(v))
	}
	c := p.ctx
	t := s.t
	w, signed := kindInfo(s.k)
	if w < 64 {
		if signed {
			t = c.Sext(t, 64)
		} else {
			t = c.Zext(t, 64)
		}
	}
	inb := c.Cmp(smt.KUle, t, c.BV(uint64(max), 64))
	if !p.branch(inb) {
		panic(rtPanic(what + " out of range (symbolic)"))
	}
	return int(p.concretize(t))
}

// ---- wrap-around watch (analogue of CBMC's overflow checks), per function

// watchCond accumulates one wrap-around condition; the disjunction is
// discharged as a single obligation when the outermost watched call returns
// or panics (watchFlush).
func (p *Path) watchCond(ovf *smt.Term, what string) {
	if p.watching == 0 || !p.watchHere {
		return
	}
	ovf = p.resolve(ovf)
	p.stats.WatchObl++
	if ovf.IsFalse() {
		p.stats.Obligations++
		p.stats.ObFolded++
		return
	}
	if p.watchAcc == nil {
		p.watchAcc = ovf
	} else {
		p.watchAcc = p.ctx.Or(p.watchAcc, ovf)
	}
}

func (p *Path) watchFlush() {
	if p.watchAcc == nil {
		return
	}
	acc := p.watchAcc
	p.watchAcc = nil
	p.check(p.ctx.Not(acc), "watch", "integer wrap-around inside a watched function (result would be wrong)")
}

func (p *Path) watchArith(op token.Token, x, y *smt.Term, signed bool) {
	if p.watching == 0 || !p.watchHere {
		return
	}
	c := p.ctx
	switch op {
	case token.ADD:
		if signed {
			p.watchCond(c.Ovf(smt.KSAddOvf, x, y), "add")
		} else {
			p.watchCond(c.Ovf(smt.KUAddOvf, x, y), "add")
		}
	case token.SUB:
		if signed {
			p.watchCond(c.Ovf(smt.KSSubOvf, x, y), "sub")
		} else {
			p.watchCond(c.Ovf(smt.KUSubOvf, x, y), "sub")
		}
	case token.MUL:
		if signed {
			p.watchCond(c.Ovf(smt.KSMulOvf, x, y), "mul")
		} else {
			p.watchCond(c.Ovf(smt.KUMulOvf, x, y), "mul")
		}
	}
}

func trunc(s string, n int) string {
	if len(s) > n {
		return s[:n] + "…"
	}
	return s
}
