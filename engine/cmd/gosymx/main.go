// gosymx: solver-based checking of the real mamba code.
//
//	gosymx check <property> <quick|thorough>     run the registered harnesses of a property
//	gosymx run -harness H_x [flags]              run one harness (development)
//	gosymx list                                  list harnesses found in the overlay
package main

import (
	"encoding/json"
	"flag"
	"fmt"
	"io/ioutil"
	"os"
	"os/exec"
	"path/filepath"
	"regexp"
	"sort"
	"strconv"
	"strings"
	"time"

	"verif/engine/symx"
)

type HarnessSpec struct {
	Name      string   `json:"name"`
	Tiers     []string `json:"tiers"`
	Solver    string   `json:"solver,omitempty"`
	TimeoutMs int      `json:"timeout_ms,omitempty"`
	MaxSteps  int64    `json:"max_steps,omitempty"`
	MaxPaths  int64    `json:"max_paths,omitempty"`
	WallS     int      `json:"wall_s,omitempty"`
	Footprint bool     `json:"footprint,omitempty"`
	Merge     bool     `json:"merge,omitempty"`
	Cross     string   `json:"cross,omitempty"`
	Bound     string   `json:"bound"`
	Workers   int      `json:"workers,omitempty"`
}

type PropSpec struct {
	Level       string        `json:"level"`
	Harnesses   []HarnessSpec `json:"harnesses"`
	Assumptions []string      `json:"assumptions"`
	Outside     []string      `json:"outside_bound"`
	Stubs       []string      `json:"stubs"`
	Trusted     []string      `json:"trusted_base"`
}

type KnownFinding struct {
	ID       string             `json:"id"`
	Property string             `json:"property"`
	Harness  string             `json:"harness"`
	What     string             `json:"what"`
	Status   string             `json:"status"` // "open" or "fixed"
	Commit   string             `json:"commit,omitempty"`
	Witness  []symx.ReplayInput `json:"witness,omitempty"`
}

var (
	verifDir = "/verif"
	repoDir  = "/repo"
)

func main() {
	if len(os.Args) < 2 {
		fmt.Fprintln(os.Stderr, "usage: gosymx check|run|list ...")
		os.Exit(2)
	}
	if exe, err := os.Executable(); err == nil {
		if d := filepath.Dir(filepath.Dir(exe)); fileExists(filepath.Join(d, "harness", "registry.json")) {
			verifDir = d
		}
	}
	if v := os.Getenv("VERIF_DIR"); v != "" {
		verifDir = v
	}
	if v := os.Getenv("VERIF_REPO"); v != "" {
		repoDir = v
	}
	switch os.Args[1] {
	case "check":
		os.Exit(cmdCheck(os.Args[2:]))
	case "run":
		os.Exit(cmdRun(os.Args[2:]))
	case "replay":
		os.Exit(cmdReplay(os.Args[2:]))
	case "list":
		P, _, err := load()
		if err != nil {
			fmt.Fprintln(os.Stderr, err)
			os.Exit(2)
		}
		var names []string
		for n := range P.Harnesses() {
			names = append(names, n)
		}
		sort.Strings(names)
		fmt.Println(strings.Join(names, "\n"))
	default:
		fmt.Fprintln(os.Stderr, "unknown command")
		os.Exit(2)
	}
}

// overlayFiles maps virtual /repo paths to real harness files.
func overlayFiles() (map[string]string, error) {
	out := map[string]string{}
	root := filepath.Join(verifDir, "harness")
	err := filepath.Walk(root, func(path string, info os.FileInfo, err error) error {
		if err != nil {
			return err
		}
		if info.IsDir() || !strings.HasSuffix(path, ".go") {
			return nil
		}
		rel, _ := filepath.Rel(root, path)
		dir, file := filepath.Split(rel)
		if strings.HasPrefix(dir, "zzverifrt") {
			out[filepath.Join(repoDir, dir, file)] = path
		} else {
			out[filepath.Join(repoDir, dir, "zz_verif_"+file)] = path
		}
		return nil
	})
	return out, err
}

func load() (*symx.Program, map[string]string, error) {
	files, err := overlayFiles()
	if err != nil {
		return nil, nil, err
	}
	ov := map[string][]byte{}
	for virt, real := range files {
		b, err := ioutil.ReadFile(real)
		if err != nil {
			return nil, nil, err
		}
		ov[virt] = b
	}
	P, err := symx.Load(repoDir, ov, []string{"./..."})
	return P, files, err
}

func defaults(h *HarnessSpec) symx.Options {
	o := symx.Options{Workers: h.Workers, Solver: h.Solver, TimeoutMs: h.TimeoutMs, MaxSteps: h.MaxSteps, MaxPaths: h.MaxPaths, Footprint: h.Footprint, Merge: h.Merge, CrossSolver: h.Cross}
	if o.Solver == "" {
		o.Solver = "z3"
	}
	if o.TimeoutMs == 0 {
		o.TimeoutMs = 10000
	}
	if o.MaxSteps == 0 {
		o.MaxSteps = 20000000
	}
	if h.WallS > 0 {
		o.Wall = time.Duration(h.WallS) * time.Second
	}
	if s := os.Getenv("VERIF_SEED"); s != "" {
		o.Seed, _ = strconv.Atoi(s)
	}
	o.MaxViolations = 1
	return o
}

// cmdReplay re-runs one counterexample file natively against the repository.
func cmdReplay(args []string) int {
	if len(args) < 2 {
		fmt.Fprintln(os.Stderr, "usage: gosymx replay <property> <file.json>")
		return 2
	}
	b, err := ioutil.ReadFile(args[1])
	if err != nil {
		fmt.Fprintln(os.Stderr, err)
		return 2
	}
	var rf replayFile
	if err := json.Unmarshal(b, &rf); err != nil {
		fmt.Fprintln(os.Stderr, err)
		return 2
	}
	files, err := overlayFiles()
	if err != nil {
		fmt.Fprintln(os.Stderr, err)
		return 2
	}
	pkg := harnessPkgDir(files, rf.Harness)
	if pkg == "" {
		fmt.Fprintln(os.Stderr, "harness not found:", rf.Harness)
		return 2
	}
	abs, _ := filepath.Abs(args[1])
	res, err := nativeReplay(files, pkg, []string{abs}, rf.Kind == "steps")
	if err != nil {
		fmt.Fprintln(os.Stderr, err)
		return 2
	}
	fmt.Printf("harness=%s inputs: %s\nnative outcome: %s\n", rf.Harness, fmtInputs(rf.Inputs), res[0])
	if strings.HasPrefix(res[0], "violation:") || strings.HasPrefix(res[0], "panic:") || res[0] == "timeout" {
		fmt.Printf("VIOLATION property=%s replay=%s\n", args[0], abs)
		return 1
	}
	return 0
}

// harnessPkgDir finds the package directory (relative to the repo) whose harness files define name.
func harnessPkgDir(files map[string]string, name string) string {
	re := regexp.MustCompile(`(?m)^func ` + regexp.QuoteMeta(name) + `\(\)`)
	for virt, real := range files {
		b, _ := ioutil.ReadFile(real)
		if re.Match(b) {
			rel, _ := filepath.Rel(repoDir, filepath.Dir(virt))
			return "./" + rel
		}
	}
	return ""
}

func cmdRun(args []string) int {
	fs := flag.NewFlagSet("run", flag.ExitOnError)
	name := fs.String("harness", "", "harness function name")
	solver := fs.String("solver", "z3", "z3|z3-new|cvc5")
	tmo := fs.Int("timeout", 10000, "per-query timeout ms")
	workers := fs.Int("workers", 0, "workers (0 = NumCPU)")
	maxv := fs.Int("maxviol", 3, "stop after this many violations")
	maxp := fs.Int64("maxpaths", 0, "path budget")
	steps := fs.Int64("steps", 20000000, "instruction budget per path")
	foot := fs.Bool("footprint", false, "log footprints")
	merge := fs.Bool("merge", false, "guarded merging of pure regions")
	cross := fs.String("cross", "", "second solver for verdict cross-checking")
	verbose := fs.Bool("v", false, "progress")
	replay := fs.Bool("replay", true, "replay violations natively")
	known := fs.String("known", "", "comma-separated known-finding ids to treat as live")
	fs.Parse(args)
	for _, id := range strings.Split(*known, ",") {
		if id != "" {
			symx.LiveFindings[id] = true
		}
	}
	P, files, err := load()
	if err != nil {
		fmt.Fprintln(os.Stderr, err)
		return 2
	}
	fn := P.Harnesses()[*name]
	if fn == nil {
		fmt.Fprintln(os.Stderr, "no such harness:", *name)
		return 2
	}
	o := symx.Options{Workers: *workers, Solver: *solver, TimeoutMs: *tmo, MaxSteps: *steps, MaxPaths: *maxp, MaxViolations: *maxv, Verbose: *verbose, Footprint: *foot, Merge: *merge, CrossSolver: *cross}
	hr := P.Explore(fn, o)
	printResult(hr)
	rc := 0
	for k, v := range hr.Violations {
		rc = 1
		if *replay {
			f := writeReplay("DEV", v, k)
			res, err := nativeReplay(files, pkgDirOf(P, *name), []string{f}, v.Kind == "steps")
			fmt.Printf("  native replay: %v %v\n", res, err)
		}
	}
	if len(hr.EngineErrors) > 0 || !hr.Exhaustive && rc == 0 {
		return 2
	}
	return rc
}

func printResult(hr *symx.HarnessResult) {
	fmt.Printf("harness %s: paths=%d ended=%d dropped=%d violations=%d exhaustive=%v wall=%.1fs\n", hr.Harness, hr.Paths, hr.Ended, hr.Dropped, len(hr.Violations), hr.Exhaustive, hr.WallSeconds)
	st := hr.Stats
	fmt.Printf("  decisions=%d obligations=%d (folded %d, unsat %d, unknown %d) solver queries=%d (%.1fs, %d cross-checked, %d retried) steps=%d merged=%d\n", st.Decisions, st.Obligations, st.ObFolded, st.ObUnsat, st.ObUnknown, hr.SolverQ, hr.SolverSec, hr.CrossChecked, hr.Retried, st.Steps, st.Merged)
	for _, e := range hr.EngineErrors {
		fmt.Printf("  ENGINE-ERROR: %s\n", e)
	}
	for _, e := range hr.Incomplete {
		fmt.Printf("  INCOMPLETE: %s\n", e)
	}
	for _, v := range hr.Violations {
		fmt.Printf("  CANDIDATE [%s] %s\n    inputs: %s\n", v.Kind, v.Msg, fmtInputs(v.Inputs))
	}
}

func fmtInputs(in []symx.ReplayInput) string {
	var sb strings.Builder
	for i, x := range in {
		if i > 0 {
			sb.WriteString(" ")
		}
		if x.Kind == "int" {
			fmt.Fprintf(&sb, "%s=%d", x.Name, int64(x.Val))
		} else {
			fmt.Fprintf(&sb, "%s=%d", x.Name, x.Val)
		}
		if sb.Len() > 1500 {
			sb.WriteString(" …")
			break
		}
	}
	return sb.String()
}

func pkgDirOf(P *symx.Program, harness string) string {
	fn := P.Harnesses()[harness]
	path := fn.Pkg.Pkg.Path()
	return "./" + strings.TrimPrefix(strings.TrimPrefix(path, symx.ModPath), "/")
}

type replayFile struct {
	Property string              `json:"property"`
	Harness  string              `json:"harness"`
	Kind     string              `json:"kind"`
	Msg      string              `json:"msg"`
	Inputs   []symx.ReplayInput  `json:"inputs"`
	Digests  []symx.ReplayDigest `json:"digests,omitempty"`
}

func writeReplay(prop string, v *symx.Violation, k int, dig ...[]symx.ReplayDigest) string {
	dir := filepath.Join(verifDir, "out", prop)
	os.MkdirAll(dir, 0o755)
	f := filepath.Join(dir, fmt.Sprintf("%s-%d.json", v.Harness, k))
	rf := replayFile{Property: prop, Harness: v.Harness, Kind: v.Kind, Msg: v.Msg, Inputs: v.Inputs}
	if len(dig) > 0 {
		rf.Digests = dig[0]
	}
	b, _ := json.MarshalIndent(rf, "", " ")
	ioutil.WriteFile(f, b, 0o644)
	return f
}

// replayingWitness is set while the witnesses of known findings are replayed (no region is excluded then).
var replayingWitness bool

var resultRe = regexp.MustCompile(`(?m)^VERIF-REPLAY-RESULT: (.*)$`)

// nativeReplay runs the harness natively (go test -overlay) on each replay
// file and returns one outcome per file.
func nativeReplay(files map[string]string, pkgDir string, replays []string, short ...bool) ([]string, error) {
	tmp := filepath.Join(verifDir, "out", "tmp")
	os.MkdirAll(tmp, 0o755)
	pkgAbs := filepath.Join(repoDir, pkgDir)
	// generated test driver listing the package's harnesses
	var names []string
	pkgName := ""
	fnRe := regexp.MustCompile(`(?m)^func (H_\w+)\(\)`)
	pkRe := regexp.MustCompile(`(?m)^package (\w+)`)
	for virt, real := range files {
		if filepath.Dir(virt) != filepath.Clean(pkgAbs) {
			continue
		}
		b, _ := ioutil.ReadFile(real)
		for _, m := range fnRe.FindAllStringSubmatch(string(b), -1) {
			names = append(names, m[1])
		}
		if m := pkRe.FindStringSubmatch(string(b)); m != nil {
			pkgName = m[1]
		}
	}
	sort.Strings(names)
	var sb strings.Builder
	fmt.Fprintf(&sb, "package %s\n\nimport (\n\t\"testing\"\n\trt \"%s\"\n)\n\nfunc TestVerifReplay(t *testing.T) {\n\trt.ReplayMain(map[string]func(){\n", pkgName, symx.RtPath)
	for _, n := range names {
		fmt.Fprintf(&sb, "\t\t%q: %s,\n", n, n)
	}
	sb.WriteString("\t})\n}\n")
	drv := filepath.Join(tmp, fmt.Sprintf("replay_%d_test.go", os.Getpid()))
	ioutil.WriteFile(drv, []byte(sb.String()), 0o644)
	defer os.Remove(drv)
	repl := map[string]string{}
	for virt, real := range files {
		repl[virt] = real
	}
	repl[filepath.Join(pkgAbs, "zz_verif_replay_test.go")] = drv
	ovb, _ := json.Marshal(map[string]interface{}{"Replace": repl})
	ovf := filepath.Join(tmp, fmt.Sprintf("overlay_%d.json", os.Getpid()))
	ioutil.WriteFile(ovf, ovb, 0o644)
	defer os.Remove(ovf)
	tmo := "600s"
	if len(short) > 0 && short[0] {
		tmo = "20s"
	}
	cmd := exec.Command("go", "test", "-vet=off", "-count=1", "-timeout", tmo, "-overlay", ovf, "-run", "^TestVerifReplay$", "-v", pkgDir)
	cmd.Dir = repoDir
	var liveIDs []string
	if !replayingWitness {
		for id, on := range symx.LiveFindings {
			if on {
				liveIDs = append(liveIDs, id)
			}
		}
	}
	sort.Strings(liveIDs)
	cmd.Env = append(os.Environ(), "VERIF_LIVE_FINDINGS="+strings.Join(liveIDs, ","), "GOFLAGS=-mod=mod", "GOPROXY=off", "GOSUMDB=off", "GOTOOLCHAIN=local", "GOWORK=off", "VERIF_REPLAY="+strings.Join(replays, ","))
	out, err := cmd.CombinedOutput()
	if err != nil && (strings.Contains(string(out), "[build failed]") || strings.Contains(string(out), "signal: ")) && !strings.Contains(string(out), ".go:") {
		// the toolchain itself was interrupted (e.g. the linker killed on a loaded machine),
		// not a compile error of the package: build and run once more
		time.Sleep(2 * time.Second)
		cmd2 := exec.Command("go", "test", "-vet=off", "-count=1", "-timeout", tmo, "-overlay", ovf, "-run", "^TestVerifReplay$", "-v", pkgDir)
		cmd2.Dir = repoDir
		cmd2.Env = cmd.Env
		out, err = cmd2.CombinedOutput()
	}
	ms := resultRe.FindAllStringSubmatch(string(out), -1)
	var res []string
	for _, m := range ms {
		res = append(res, m[1])
	}
	if len(res) < len(replays) && strings.Contains(string(out), "test timed out") {
		for len(res) < len(replays) {
			res = append(res, "timeout")
		}
	}
	if len(res) != len(replays) {
		return res, fmt.Errorf("native replay produced %d results for %d files (err=%v):\n%s", len(res), len(replays), err, trunc(string(out), 3000))
	}
	return res, nil
}

func trunc(s string, n int) string {
	if len(s) > n {
		return s[:n] + "…"
	}
	return s
}

// reproduces reports whether a native outcome confirms the candidate.
func reproduces(v *symx.Violation, outcome string) bool {
	if strings.HasPrefix(v.Msg, "footprint interference") {
		// a footprint conflict has no native observable; the replay only confirms that the
		// inputs are valid (all assumptions hold) and that the harness runs to its end
		return outcome == "pass" || strings.HasPrefix(outcome, "violation:")
	}
	switch v.Kind {
	case "check":
		return strings.HasPrefix(outcome, "violation:") || strings.HasPrefix(outcome, "panic:")
	case "panic":
		return strings.HasPrefix(outcome, "panic:") || strings.HasPrefix(outcome, "violation:")
	case "steps":
		return strings.HasPrefix(outcome, "timeout")
	}
	return false
}

func cmdCheck(args []string) int {
	if len(args) < 2 {
		fmt.Fprintln(os.Stderr, "usage: gosymx check <property> <quick|thorough>")
		return 2
	}
	prop, tier := args[0], args[1]
	t0 := time.Now()
	var reg map[string]*PropSpec
	b, err := ioutil.ReadFile(filepath.Join(verifDir, "harness", "registry.json"))
	if err != nil {
		fmt.Fprintln(os.Stderr, err)
		return 2
	}
	if err := json.Unmarshal(b, &reg); err != nil {
		fmt.Fprintln(os.Stderr, "registry.json:", err)
		return 2
	}
	ps := reg[prop]
	if ps == nil {
		fmt.Fprintln(os.Stderr, "property not in registry:", prop)
		return 2
	}
	var known []KnownFinding
	if kb, err := ioutil.ReadFile(filepath.Join(verifDir, "known_findings.json")); err == nil {
		if err := json.Unmarshal(kb, &known); err != nil {
			fmt.Fprintln(os.Stderr, "known_findings.json:", err)
			return 2
		}
	}
	P, files, err := load()
	if err != nil {
		fmt.Fprintln(os.Stderr, "LOAD FAILED:", err)
		return 2
	}
	hs := P.Harnesses()
	seed := 0
	if s := os.Getenv("VERIF_SEED"); s != "" {
		seed, _ = strconv.Atoi(s)
	}

	// 1. known findings: replay the witnesses natively; live ones are announced and their regions excluded
	live := map[string]bool{}
	replayingWitness = true
	for _, kf := range known {
		if kf.Property != prop || kf.Status != "open" {
			continue
		}
		v := &symx.Violation{Harness: kf.Harness, Kind: "check", Msg: kf.What, Inputs: kf.Witness}
		f := writeReplay(prop, v, 9000+len(live))
		res, err := nativeReplay(files, pkgDirOf(P, kf.Harness), []string{f})
		if err == nil && len(res) == 1 && (strings.HasPrefix(res[0], "violation:") || strings.HasPrefix(res[0], "panic:")) {
			live[kf.ID] = true
			fmt.Printf("KNOWN-FINDING: property=%s %s [%s]\n", prop, kf.What, kf.ID)
		} else {
			fmt.Printf("note: known finding %s no longer reproduces (%v %v); it is not used to exclude anything\n", kf.ID, res, err)
		}
	}
	replayingWitness = false
	symx.LiveFindings = live

	exit := 0
	type hev struct {
		Name        string   `json:"harness"`
		Bound       string   `json:"bound"`
		Solver      string   `json:"solver"`
		Paths       int64    `json:"paths_explored"`
		Ended       int64    `json:"paths_reaching_end"`
		Dropped     int64    `json:"paths_dropped_by_assumption"`
		Decisions   int      `json:"symbolic_decisions"`
		Obligations int      `json:"obligations"`
		ObFolded    int      `json:"obligations_discharged_by_constant_folding"`
		ObUnsat     int      `json:"obligations_discharged_by_solver_unsat"`
		WatchObl    int      `json:"wraparound_obligations"`
		Exists      int      `json:"exists_queries"`
		SolverQ     int      `json:"solver_queries"`
		SolverSec   float64  `json:"solver_seconds"`
		Cross       int      `json:"queries_cross_checked_with_second_solver"`
		Retried     int      `json:"queries_retried_with_longer_time_limit"`
		Steps       int64    `json:"ssa_instructions_executed"`
		Exhaustive  bool     `json:"path_tree_exhausted"`
		Wall        float64  `json:"wall_s"`
		Reach       []string `json:"reach_labels"`
		CheckSites  int      `json:"check_sites_reached"`
		Incomplete  []string `json:"incomplete,omitempty"`
		Replayed    int      `json:"paths_replayed_natively_agreeing"`
	}
	var hevs []hev
	var samples []interface{}
	funcs := map[string]bool{}
	var totPaths, totDec, totNonTriv int64
	var totObl, totDis, validated, violations int
	ran := 0
	for _, h := range ps.Harnesses {
		inTier := false
		for _, t := range h.Tiers {
			if t == tier {
				inTier = true
			}
		}
		if !inTier {
			continue
		}
		fn := hs[h.Name]
		if fn == nil {
			fmt.Printf("BROKEN: harness %s not found in overlay\n", h.Name)
			exit = 2
			continue
		}
		ran++
		o := defaults(&h)
		hr := P.Explore(fn, o)
		printResult(hr)
		for f := range hr.Funcs {
			funcs[f] = true
		}
		e := hev{Name: h.Name, Bound: h.Bound, Solver: o.Solver, Paths: hr.Paths, Ended: hr.Ended, Dropped: hr.Dropped, Decisions: hr.Stats.Decisions,
			Obligations: hr.Stats.Obligations, ObFolded: hr.Stats.ObFolded, ObUnsat: hr.Stats.ObUnsat, WatchObl: hr.Stats.WatchObl, Exists: hr.Stats.ExistsQueries,
			SolverQ: hr.SolverQ, SolverSec: hr.SolverSec, Cross: hr.CrossChecked, Retried: hr.Retried, Steps: hr.Stats.Steps, Exhaustive: hr.Exhaustive, Wall: hr.WallSeconds, CheckSites: len(hr.Stats.CheckSites), Incomplete: hr.Incomplete}
		for l := range hr.Stats.ReachLabels {
			e.Reach = append(e.Reach, l)
		}
		sort.Strings(e.Reach)
		totPaths += hr.Paths
		totDec += int64(hr.Stats.Decisions)
		totNonTriv += hr.NonTrivial
		totObl += hr.Stats.Obligations
		totDis += hr.Stats.ObFolded + hr.Stats.ObUnsat

		// violations: replay natively before reporting
		for k, v := range hr.Violations {
			f := writeReplay(prop, v, k)
			res, err := nativeReplay(files, pkgDirOf(P, h.Name), []string{f}, v.Kind == "steps")
			if err != nil {
				fmt.Printf("ENGINE-DISCREPANCY: replay of %s failed to run: %v\n", f, err)
				exit = 2
				continue
			}
			if reproduces(v, res[0]) {
				fmt.Printf("VIOLATION property=%s replay=%s\n  harness=%s: %s\n  native outcome: %s\n  inputs: %s\n", prop, f, v.Harness, v.Msg, res[0], fmtInputs(v.Inputs))
				violations++
				if exit == 0 {
					exit = 1
				}
			} else {
				fmt.Printf("ENGINE-DISCREPANCY: candidate %s (%s) does not reproduce natively: %s\n", f, v.Msg, res[0])
				exit = 2
			}
		}
		if len(hr.EngineErrors) > 0 {
			exit = 2
		}
		if !hr.Exhaustive && len(hr.Violations) == 0 {
			fmt.Printf("BROKEN: harness %s did not exhaust its path tree: %v\n", h.Name, hr.Incomplete)
			exit = 2
		}
		// vacuity: at least one path must reach the end label
		if len(hr.Violations) == 0 && len(hr.EngineErrors) == 0 && !hr.Stats.ReachLabels["end"] {
			fmt.Printf("BROKEN: harness %s is vacuous: no path reached Reach(\"end\")\n", h.Name)
			exit = 2
		}
		// differential: replay a few explored paths natively; they must pass
		if len(hr.Samples) > 0 && exit != 2 {
			var fs []string
			n := len(hr.Samples)
			if n > 4 {
				n = 4
			}
			for k := 0; k < n; k++ {
				idx := (k + seed) % len(hr.Samples)
				v := &symx.Violation{Harness: h.Name, Kind: "sample", Msg: "explored path", Inputs: hr.Samples[idx]}
				fs = append(fs, writeReplay(prop, v, 100+k, hr.SampleDig[idx]))
			}
			res, err := nativeReplay(files, pkgDirOf(P, h.Name), fs)
			if err != nil {
				fmt.Printf("ENGINE-DISCREPANCY: sample replay failed: %v\n", err)
				exit = 2
			}
			for k, r := range res {
				if r == "pass" {
					validated++
					e.Replayed++
				} else if exit != 1 {
					fmt.Printf("ENGINE-DISCREPANCY: explored path %s passed symbolically but natively: %s\n", fs[k], r)
					exit = 2
				}
			}
			for _, f := range fs {
				os.Remove(f)
			}
		}
		for k, s := range hr.Samples {
			if k < 2 {
				samples = append(samples, map[string]interface{}{"harness": h.Name, "inputs": fmtInputs(s), "decisions": trunc(hr.SampleDec[k], 300)})
			}
		}
		hevs = append(hevs, e)
	}
	if ran == 0 {
		fmt.Printf("BROKEN: no harness registered for %s tier %s\n", prop, tier)
		exit = 2
	}
	var fl []string
	for f := range funcs {
		fl = append(fl, f)
	}
	sort.Strings(fl)
	if len(samples) == 0 {
		samples = append(samples, "no path reached the end of a harness in this run")
	}
	exh := true
	for _, e := range hevs {
		exh = exh && e.Exhaustive
	}
	level := ps.Level
	if level == "" {
		level = "model_checking"
	}
	cov := map[string]interface{}{
		"states":                        maxi(totPaths, 1),
		"transitions":                   maxi(totDec, 1),
		"traces_validated_against_impl": validated,
		"samples":                       samples,
		"evaluations":                   maxi(totPaths, 1),
		"distinct_nontrivial":           totNonTriv,
		"rule":                          "one case = one feasible path of a harness through the real code (distinct decision strings); non-trivial = took at least one symbolic decision and reached at least one obligation",
		"obligations":                   totObl,
		"discharged":                    totDis,
		"exhaustive":                    exh && exit == 0,
		"harnesses":                     hevs,
		"functions_encoded":             fl,
		"stubs":                         ps.Stubs,
		"outside_bound":                 ps.Outside,
		"trusted_base":                  ps.Trusted,
		"encoding":                      "SSA (go/ssa, InstantiateGenerics) regenerated from /repo's working tree in this run and executed symbolically; integers are bit-vectors of their Go width",
		"load_seconds":                  P.LoadSeconds,
		"explanation":                   "bounded symbolic execution of the real code: every feasible path of each harness within its stated bound was explored and every obligation on it discharged by the SMT solver or by constant folding",
	}
	ev := map[string]interface{}{
		"property_id": prop, "tier": tier, "seed": seed, "level": level, "coverage": cov,
		"assumptions": ps.Assumptions, "wall_s": time.Since(t0).Seconds(), "violations": violations,
	}
	os.MkdirAll(filepath.Join(verifDir, "evidence"), 0o755)
	eb, _ := json.MarshalIndent(ev, "", " ")
	ioutil.WriteFile(filepath.Join(verifDir, "evidence", prop+".json"), eb, 0o644)
	if violations > 0 {
		// a violation that reproduces against the real build decides the check, whatever
		// else was inconclusive in the same run
		exit = 1
	}
	fmt.Printf("%s %s: exit %d (%.1fs)\n", prop, tier, exit, time.Since(t0).Seconds())
	return exit
}

func fileExists(p string) bool {
	_, err := os.Stat(p)
	return err == nil
}

func maxi(a, b int64) int64 {
	if a > b {
		return a
	}
	return b
}
