//go:build gosymx
// +build gosymx

// Symbolic-run twin of rt.go: every function is intercepted by the engine by name;
// the bodies below are never executed.
package zzverifrt

func Symbolic() bool                              { panic("zzverifrt.Symbolic: engine intrinsic") }
func Int(name string) int                         { panic("zzverifrt.Int: engine intrinsic") }
func IntIn(name string, lo, hi int) int           { panic("zzverifrt.IntIn: engine intrinsic") }
func Uint64(name string) uint64                   { panic("zzverifrt.Uint64: engine intrinsic") }
func Uint64In(name string, lo, hi uint64) uint64  { panic("zzverifrt.Uint64In: engine intrinsic") }
func Byte(name string) byte                       { panic("zzverifrt.Byte: engine intrinsic") }
func ByteIn(name string, lo, hi byte) byte        { panic("zzverifrt.ByteIn: engine intrinsic") }
func Bool(name string) bool                       { panic("zzverifrt.Bool: engine intrinsic") }
func Bit(name string) byte                        { panic("zzverifrt.Bit: engine intrinsic") }
func BitInt(name string) int                      { panic("zzverifrt.BitInt: engine intrinsic") }
func Bytes(name string, n int) []byte             { panic("zzverifrt.Bytes: engine intrinsic") }
func Ints(name string, n int) []int               { panic("zzverifrt.Ints: engine intrinsic") }
func String(name string, n int) string            { panic("zzverifrt.String: engine intrinsic") }
func Choice(name string, k int) int               { panic("zzverifrt.Choice: engine intrinsic") }
func Assume(c bool)                               { panic("zzverifrt.Assume: engine intrinsic") }
func Check(c bool, msg string)                    { panic("zzverifrt.Check: engine intrinsic") }
func Fail(msg string)                             { panic("zzverifrt.Fail: engine intrinsic") }
func Reach(label string)                          { panic("zzverifrt.Reach: engine intrinsic") }
func Panics(f func()) (panicked bool, msg string) { panic("zzverifrt.Panics: engine intrinsic") }
func And(a, b bool) bool                          { panic("zzverifrt.And: engine intrinsic") }
func Or(a, b bool) bool                           { panic("zzverifrt.Or: engine intrinsic") }
func Not(a bool) bool                             { panic("zzverifrt.Not: engine intrinsic") }
func Implies(a, b bool) bool                      { panic("zzverifrt.Implies: engine intrinsic") }
func IteInt(c bool, a, b int) int                 { panic("zzverifrt.IteInt: engine intrinsic") }
func IteByte(c bool, a, b byte) byte              { panic("zzverifrt.IteByte: engine intrinsic") }
func B2I(c bool) int                              { panic("zzverifrt.B2I: engine intrinsic") }
func Concrete(x int) int                          { panic("zzverifrt.Concrete: engine intrinsic") }
func ConcreteBool(x bool) bool                    { panic("zzverifrt.ConcreteBool: engine intrinsic") }
func ConcreteByte(x byte) byte                    { panic("zzverifrt.ConcreteByte: engine intrinsic") }
func WatchOverflow(fn string)                     { panic("zzverifrt.WatchOverflow: engine intrinsic") }
func ActorBegin(id int)                           { panic("zzverifrt.ActorBegin: engine intrinsic") }
func ActorEnd()                                   { panic("zzverifrt.ActorEnd: engine intrinsic") }
func FootprintCheck()                             { panic("zzverifrt.FootprintCheck: engine intrinsic") }
func Itoa(i int) string                           { panic("zzverifrt.Itoa: engine intrinsic") }
func ExistsBegin()                                { panic("zzverifrt.ExistsBegin: engine intrinsic") }
func ExistsEnd(c bool) bool                       { panic("zzverifrt.ExistsEnd: engine intrinsic") }
func KnownFinding(id string) bool                 { panic("zzverifrt.KnownFinding: engine intrinsic") }
func Digest(name string, v int)                   { panic("zzverifrt.Digest: engine intrinsic") }
