//go:build !gosymx
// +build !gosymx

// Package zzverifrt is the harness vocabulary of the gosymx checks.
//
// In the symbolic run every exported function below is intercepted by name by
// the engine (the bodies are never executed).  In the native replay build the
// same functions read their values from the counterexample file named by
// $VERIF_REPLAY, so the harness source is also the replay test.
package zzverifrt

import (
	"encoding/json"
	"fmt"
	"io/ioutil"
	"os"
	"strings"
)

type input struct {
	Name string `json:"name"`
	Kind string `json:"kind"`
	Val  uint64 `json:"val"`
}

type digest struct {
	Name string `json:"name"`
	Val  uint64 `json:"val"`
}

type replayFile struct {
	Property string   `json:"property"`
	Harness  string   `json:"harness"`
	Kind     string   `json:"kind"`
	Msg      string   `json:"msg"`
	Inputs   []input  `json:"inputs"`
	Digests  []digest `json:"digests"`
}

var (
	rf     replayFile
	pos    int
	dpos   int
	loaded bool
)

// AssumeFailed / CheckFailed / Mismatch are the panics that end a replay.
type AssumeFailed struct{}
type CheckFailed struct{ Msg string }
type Mismatch struct{ Msg string }

var curFile string

func load() {
	if loaded {
		return
	}
	loaded = true
	path := curFile
	if path == "" {
		panic(Mismatch{"VERIF_REPLAY not set"})
	}
	b, err := ioutil.ReadFile(path)
	if err != nil {
		panic(Mismatch{err.Error()})
	}
	if err := json.Unmarshal(b, &rf); err != nil {
		panic(Mismatch{err.Error()})
	}
}

func next(name, kind string) uint64 {
	load()
	if pos >= len(rf.Inputs) {
		// inputs drawn after the point where the symbolic path stopped: any value will do
		pos++
		return 0
	}
	in := rf.Inputs[pos]
	pos++
	if in.Kind != kind {
		panic(Mismatch{fmt.Sprintf("draw %d: replay file has %s %q, harness draws %s %q", pos-1, in.Kind, in.Name, kind, name)})
	}
	return in.Val
}

// Symbolic reports whether the harness runs under the symbolic engine.
func Symbolic() bool { return false }

func Int(name string) int               { return int(next(name, "int")) }
func IntIn(name string, lo, hi int) int { return int(next(name, "int")) }
func Uint64(name string) uint64         { return next(name, "uint64") }
func Uint64In(name string, lo, hi uint64) uint64 {
	return next(name, "uint64")
}
func Byte(name string) byte                { return byte(next(name, "byte")) }
func ByteIn(name string, lo, hi byte) byte { return byte(next(name, "byte")) }
func Bool(name string) bool                { return next(name, "bool") != 0 }

// Bit is a byte that is 0 or 1.
func Bit(name string) byte { return byte(next(name, "bit") & 1) }

// BitInt is an int that is 0 or 1.
func BitInt(name string) int { return int(next(name, "bit") & 1) }

func Bytes(name string, n int) []byte {
	out := make([]byte, n)
	for i := range out {
		out[i] = byte(next(name, "byte"))
	}
	return out
}

func Ints(name string, n int) []int {
	out := make([]int, n)
	for i := range out {
		out[i] = int(next(name, "int"))
	}
	return out
}

func String(name string, n int) string { return string(Bytes(name, n)) }

// Choice forks k ways (concrete result in [0,k)).
func Choice(name string, k int) int { return int(next(name, "choice")) }

func Assume(c bool) {
	if !c {
		panic(AssumeFailed{})
	}
}

func Check(c bool, msg string) {
	if !c {
		panic(CheckFailed{msg})
	}
}

func Fail(msg string) { panic(CheckFailed{msg}) }

func Reach(label string) {}

// Panics runs f and reports whether it panicked (and with what).
func Panics(f func()) (panicked bool, msg string) {
	defer func() {
		if r := recover(); r != nil {
			switch r.(type) {
			case AssumeFailed, CheckFailed, Mismatch:
				panic(r)
			}
			panicked = true
			msg = fmt.Sprint(r)
		}
	}()
	f()
	return
}

// Branch-free connectives (build one formula instead of forking).
func And(a, b bool) bool     { return a && b }
func Or(a, b bool) bool      { return a || b }
func Not(a bool) bool        { return !a }
func Implies(a, b bool) bool { return !a || b }
func IteInt(c bool, a, b int) int {
	if c {
		return a
	}
	return b
}
func IteByte(c bool, a, b byte) byte {
	if c {
		return a
	}
	return b
}
func B2I(c bool) int {
	if c {
		return 1
	}
	return 0
}

// Concrete forces a fork over the feasible values of x.
func Concrete(x int) int       { return x }
func ConcreteBool(x bool) bool { return x }
func ConcreteByte(x byte) byte { return x }
func WatchOverflow(fn string)  {}
func ActorBegin(id int)        {}
func ActorEnd()                {}
func FootprintCheck()          {}
func Itoa(i int) string        { return fmt.Sprint(i) }

// Exists: natively the harness enumerates; see ExistsInts.
func ExistsBegin()          {}
func ExistsEnd(c bool) bool { return c }

// Digest records an observable of the real code.  The symbolic run stores its value (under
// the path's model) in the replay file of sampled paths; the native replay recomputes it and
// any difference is reported as a mismatch between the interpreter and the real build.
func Digest(name string, v int) {
	load()
	if rf.Kind != "sample" {
		return
	}
	if dpos >= len(rf.Digests) {
		panic(Mismatch{fmt.Sprintf("digest %q: the symbolic run recorded only %d digests", name, len(rf.Digests))})
	}
	d := rf.Digests[dpos]
	dpos++
	if d.Name != name || d.Val != uint64(v) {
		panic(Mismatch{fmt.Sprintf("digest %d: symbolic run %s=%d, native run %s=%d", dpos-1, d.Name, int64(d.Val), name, v)})
	}
}

// KnownFinding reports whether the engine treats the listed finding as live
// (so that the harness excludes its region).  In a native replay the live set
// is handed over in $VERIF_LIVE_FINDINGS; it is empty when a finding's own
// witness is replayed, so that the witness still fails.
func KnownFinding(id string) bool {
	for _, x := range strings.Split(os.Getenv("VERIF_LIVE_FINDINGS"), ",") {
		if x == id && id != "" {
			return true
		}
	}
	return false
}

// ReplayMain runs, for every file listed in $VERIF_REPLAY (comma separated),
// the harness named in it and prints one outcome line per file.
func ReplayMain(harnesses map[string]func()) {
	for _, f := range strings.Split(os.Getenv("VERIF_REPLAY"), ",") {
		curFile, loaded, pos, dpos, rf = f, false, 0, 0, replayFile{}
		fmt.Printf("VERIF-REPLAY-RESULT: %s\n", replayOne(harnesses))
	}
}

func replayOne(harnesses map[string]func()) (outcome string) {
	defer func() {
		if r := recover(); r != nil {
			switch e := r.(type) {
			case Mismatch:
				outcome = "mismatch: " + e.Msg
			default:
				outcome = "mismatch: " + fmt.Sprint(r)
			}
		}
	}()
	load()
	h := harnesses[rf.Harness]
	if h == nil {
		return "mismatch: unknown harness " + rf.Harness
	}
	return runOne(h)
}

func runOne(h func()) (outcome string) {
	defer func() {
		if r := recover(); r != nil {
			switch e := r.(type) {
			case AssumeFailed:
				outcome = "assume-failed"
			case CheckFailed:
				outcome = "violation: " + e.Msg
			case Mismatch:
				outcome = "mismatch: " + e.Msg
			default:
				outcome = "panic: " + fmt.Sprint(r)
			}
		}
	}()
	h()
	return "pass"
}
