package graph

import (
	"github.com/Tom-Johnston/mamba/sortints"
	rt "github.com/Tom-Johnston/mamba/zzverifrt"
)

// c06Def: g is well formed and has exactly the edges def prescribes on n vertices.
func c06Def(g Graph, n int, def func(i, j int) bool, what string) {
	adj := make([][]bool, n)
	for i := range adj {
		adj[i] = make([]bool, n)
	}
	for i := 0; i < n; i++ {
		for j := 0; j < n; j++ {
			if i != j && (def(i, j) || def(j, i)) {
				adj[i][j] = true
			}
		}
	}
	vgAgree(g, adj, what)
}

func c06Abs(x int) int {
	if x < 0 {
		return -x
	}
	return x
}

func c06Mod(x, n int) int {
	x %= n
	if x < 0 {
		x += n
	}
	return x
}

func c06In(x int, s []int) bool {
	for _, v := range s {
		if v == x {
			return true
		}
	}
	return false
}

func c06Colex(n, k int) [][]int {
	var out [][]int
	var rec func(start int, cur []int)
	rec = func(start int, cur []int) {
		if len(cur) == k {
			out = append(out, append([]int{}, cur...))
			return
		}
		for v := start; v < n; v++ {
			rec(v+1, append(cur, v))
		}
	}
	rec(0, nil)
	// insertion sort by colex
	less := func(a, b []int) bool {
		for i := len(a) - 1; i >= 0; i-- {
			if a[i] != b[i] {
				return a[i] < b[i]
			}
		}
		return false
	}
	for i := 1; i < len(out); i++ {
		for j := i; j > 0 && less(out[j], out[j-1]); j-- {
			out[j], out[j-1] = out[j-1], out[j]
		}
	}
	return out
}

func c06Disjoint(a, b []int) bool {
	for _, x := range a {
		if c06In(x, b) {
			return false
		}
	}
	return true
}

func c06Subset(a, b []int) bool {
	for _, x := range a {
		if !c06In(x, b) {
			return false
		}
	}
	return true
}

// c06Families: the named families, parameters forked over small ranges.
func c06Families(N int) {
	switch rt.Choice("family", 15) {
	case 0:
		n := rt.Choice("n", N+1)
		c06Def(CompleteGraph(n), n, func(i, j int) bool { return true }, "CompleteGraph")
	case 1:
		parts := rt.Choice("parts", 4)
		nums := make([]int, parts)
		part := []int{}
		for p := range nums {
			nums[p] = rt.Choice("size", 4)
			for q := 0; q < nums[p]; q++ {
				part = append(part, p)
			}
		}
		c06Def(CompletePartiteGraph(nums...), len(part), func(i, j int) bool { return part[i] != part[j] }, "CompletePartiteGraph")
	case 2:
		n := rt.Choice("n", N+1)
		c06Def(Path(n), n, func(i, j int) bool { return j == i+1 }, "Path")
	case 3:
		n := 3 + rt.Choice("n", N-2)
		c06Def(Cycle(n), n, func(i, j int) bool { return j == i+1 || (i == 0 && j == n-1) }, "Cycle")
	case 4:
		n := rt.Choice("n", N+1)
		c06Def(Star(n), n, func(i, j int) bool { return i == 0 }, "Star")
	case 5:
		n, m := 1+rt.Choice("n", 3), 1+rt.Choice("m", 3)
		c06Def(RookGraph(n, m), n*m, func(u, v int) bool {
			ru, cu, rv, cv := u%n, u/n, v%n, v/n
			return (ru == rv) != (cu == cv)
		}, "RookGraph")
	case 6:
		dim := rt.Choice("dim", 4)
		c06Def(HypercubeGraph(dim), 1<<uint(dim), func(i, j int) bool { x := i ^ j; return x&(x-1) == 0 }, "HypercubeGraph")
	case 7:
		dim := 1 + rt.Choice("dim", 4)
		nn := 1 << uint(dim-1)
		c06Def(FoldedHypercubeGraph(dim), nn, func(i, j int) bool { x := i ^ j; return x&(x-1) == 0 || x == nn-1 }, "FoldedHypercubeGraph")
	case 8:
		n := rt.Choice("n", 6)
		k := rt.Choice("k", n+1)
		sets := c06Colex(n, k)
		c06Def(KneserGraph(n, k), len(sets), func(i, j int) bool { return c06Disjoint(sets[i], sets[j]) }, "KneserGraph")
	case 9:
		n := rt.Choice("n", 5)
		k := rt.Choice("k", n/2+1)
		a, b := c06Colex(n, k), c06Colex(n, n-k)
		N2 := len(a)
		c06Def(BipartiteKneserGraph(n, k), 2*N2, func(i, j int) bool {
			return i < N2 && j >= N2 && c06Subset(a[i], b[j-N2])
		}, "BipartiteKneserGraph")
	case 10:
		n := 1 + rt.Choice("n", N)
		nd := rt.Choice("ndiffs", 3)
		diffs := make([]int, nd)
		for d := range diffs {
			diffs[d] = rt.Choice("diff", 2*n+3) - n - 1 // negative, zero and >= n included
		}
		c06Def(CirculantGraph(n, diffs...), n, func(i, j int) bool {
			for _, d := range diffs {
				if c06Mod(i+d, n) == j {
					return true
				}
			}
			return false
		}, "CirculantGraph")
	case 11:
		n, m := rt.Choice("n", 4), 1+rt.Choice("m", 3)
		nd := rt.Choice("ndiffs", 3)
		diffs := make([]int, nd)
		for d := range diffs {
			diffs[d] = rt.Choice("diff", 2*m+3) - m - 1
		}
		c06Def(CirculantBipartiteGraph(n, m, diffs...), n+m, func(i, j int) bool {
			if i >= n || j < n {
				return false
			}
			for _, d := range diffs {
				if c06Mod(i+d, m) == j-n {
					return true
				}
			}
			return false
		}, "CirculantBipartiteGraph")
	case 12:
		n := 3 + rt.Choice("n", 4)
		k := 1 + rt.Choice("k", (n-1)/2)
		rt.Assume(k <= (n-1)/2)
		c06Def(GeneralisedPetersenGraph(n, k), 2*n, func(i, j int) bool {
			switch {
			case i < n && j < n:
				return j == (i+1)%n
			case i < n && j >= n:
				return j == n+i
			case i >= n && j >= n:
				return j-n == (i-n+k)%n
			}
			return false
		}, "GeneralisedPetersenGraph")
	case 13:
		n := rt.Choice("n", 4)
		c06Def(FriendshipGraph(n), 2*n+1, func(i, j int) bool {
			return i == 0 || (i%2 == 1 && j == i+1)
		}, "FriendshipGraph")
	case 14:
		n := 3
		c06Def(FlowerSnark(n), 4*n, func(u, v int) bool {
			iu, tu, iv, tv := u/4, u%4, v/4, v%4
			if iu == iv && tu == 0 && tv != 0 {
				return true // star a-b, a-c, a-d
			}
			if tu == 1 && tv == 1 && iv == (iu+1)%n {
				return true // cycle of the b's
			}
			// the 2n-cycle c_0..c_{n-1} d_0..d_{n-1}
			if tu == 2 && tv == 2 && iv == iu+1 {
				return true
			}
			if tu == 3 && tv == 3 && iv == iu+1 {
				return true
			}
			if tu == 2 && iu == n-1 && tv == 3 && iv == 0 {
				return true
			}
			if tu == 3 && iu == n-1 && tv == 2 && iv == 0 {
				return true
			}
			return false
		}, "FlowerSnark")
	}
	rt.Reach("end")
}

func H_c06_families_q() { c06Families(6) }
func H_c06_families_t() { c06Families(9) }

// c06NewDense: arbitrary byte values, then the caller scribbles over its slice.
func c06NewDense(N int) {
	n := rt.Choice("n", N+1)
	if rt.Choice("nil", 2) == 1 {
		g := NewDense(n, nil)
		c06Def(g, n, func(i, j int) bool { return false }, "NewDense(nil)")
		rt.Reach("end")
		return
	}
	edges := rt.Bytes("edges", n*(n-1)/2) // 0..255
	g := NewDense(n, edges)
	adj := c08WellFormed(g, n, "NewDense")
	if adj == nil {
		return
	}
	for k := range edges {
		j := 1
		for (j+1)*j/2 <= k {
			j++
		}
		i := k - j*(j-1)/2
		rt.Check(adj[i][j] == (edges[k] > 0), "NewDense: edge differs from the input byte")
	}
	for k := range edges {
		edges[k] = rt.Byte("scribble")
	}
	vgAgree(g, adj, "NewDense after the caller modified its slice")
	rt.Reach("end")
}

// c06NewDenseSym: NewDense on EVERY byte slice for n vertices at once (every byte an
// unconstrained symbolic 0..255, one path with guarded merging): IsEdge, Degrees, M as
// formulas over the bytes; then the caller overwrites its slice.
func c06NewDenseSym(n int) {
	edges := rt.Bytes("edges", n*(n-1)/2)
	orig := append([]byte{}, edges...)
	g := NewDense(n, edges)
	for k := range edges {
		edges[k] = rt.Byte("scribble")
	}
	rt.Check(g.N() == n, "NewDense: N() wrong")
	degs := g.Degrees()
	rt.Check(len(degs) == n, "NewDense: Degrees() has the wrong length")
	if g.N() != n || len(degs) != n {
		return
	}
	on := func(i, j int) byte {
		if i > j {
			i, j = j, i
		}
		return byte(rt.B2I(orig[j*(j-1)/2+i] > 0))
	}
	wm := 0
	for i := 0; i < n; i++ {
		wd := 0
		for j := 0; j < n; j++ {
			if i == j {
				continue
			}
			wd += int(on(i, j))
			if i < j {
				wm += int(on(i, j))
				rt.Check(g.IsEdge(i, j) == (on(i, j) > 0), "NewDense: edge differs from the input byte (or follows the caller's later writes)")
				rt.Check(g.IsEdge(j, i) == (on(i, j) > 0), "NewDense: IsEdge is not symmetric")
			}
		}
		rt.Check(degs[i] == wd, "NewDense: Degrees() differs from adjacency")
	}
	rt.Check(g.M() == wm, "NewDense: M() differs from the number of edges")
	rt.Reach("end")
}

// c06ComplementViewSym: the Complement view over EVERY DenseGraph on n vertices at once
// (symbolic edge bytes): N, M, Degrees and IsEdge (incl. i == j) follow the definition, and
// keep following it after the underlying graph is edited.
func c06ComplementViewSym(n int) {
	bit := make([][]byte, n)
	for i := range bit {
		bit[i] = make([]byte, n)
	}
	edges := make([]byte, n*(n-1)/2)
	for j := 1; j < n; j++ {
		for i := 0; i < j; i++ {
			b := rt.Bit("e")
			edges[j*(j-1)/2+i] = b
			bit[i][j], bit[j][i] = b, b
		}
	}
	deg := make([]int, n)
	m := 0
	for i := 0; i < n; i++ {
		for j := 0; j < n; j++ {
			if i != j {
				deg[i] += int(bit[i][j])
				if i < j {
					m += int(bit[i][j])
				}
			}
		}
	}
	g := &DenseGraph{NumberOfVertices: n, NumberOfEdges: m, DegreeSequence: deg, Edges: edges}
	c := Complement(g)
	// bit may grow by one row/column when a vertex is added
	check := func(what string, nn int) {
		rt.Check(c.N() == nn, "Complement view"+what+": N() wrong")
		degs := c.Degrees()
		rt.Check(len(degs) == nn, "Complement view"+what+": Degrees() has the wrong length")
		if len(degs) != nn {
			return
		}
		wm := 0
		for i := 0; i < nn; i++ {
			wd := 0
			rt.Check(!c.IsEdge(i, i), "Complement view"+what+": loop")
			for j := 0; j < nn; j++ {
				if i == j {
					continue
				}
				wd += int(bit[i][j])
				if i < j {
					wm += int(bit[i][j])
				}
				rt.Check(c.IsEdge(i, j) == (bit[i][j] == 0), "Complement view"+what+": IsEdge is not the negation of the graph's")
			}
			rt.Check(degs[i] == (nn-1)-wd, "Complement view"+what+": Degrees() differs from adjacency")
		}
		rt.Check(c.M() == nn*(nn-1)/2-wm, "Complement view"+what+": M() differs from the number of edges")
	}
	check("", n)
	// the view is live: edit the graph underneath
	g.AddEdge(0, n-1)
	bit[0][n-1], bit[n-1][0] = 1, 1
	g.RemoveEdge(1, 2)
	bit[1][2], bit[2][1] = 0, 0
	check(" after the graph was edited", n)
	// ... including its vertex count
	g.AddVertex([]int{0, n - 1})
	for i := range bit {
		bit[i] = append(bit[i], 0)
	}
	bit = append(bit, make([]byte, n+1))
	bit[0][n], bit[n][0] = 1, 1
	bit[n-1][n], bit[n][n-1] = 1, 1
	check(" after a vertex was added to the graph", n+1)
	g.RemoveVertex(n)
	g.RemoveVertex(n - 1)
	check(" after vertices were removed from the graph", n-1)
	rt.Reach("end")
}

func H_c06_complviewsym_q() { c06ComplementViewSym(10) }
func H_c06_complviewsym_t() { c06ComplementViewSym(20) }

func H_c06_newdensesym_q() { c06NewDenseSym(10) }
func H_c06_newdensesym_t() { c06NewDenseSym(20) }

func H_c06_newdense_q() { c06NewDense(4) }
func H_c06_newdense_t() { c06NewDense(5) }

// c06NewSparse: neighbour lists in arbitrary order with repeats (symmetric as sets).
func c06NewSparse(N int) {
	n := rt.Choice("n", N+1)
	adj := vgAdj(n, vgBits(n))
	nb := make([]sortints.SortedInts, n)
	for v := 0; v < n; v++ {
		var l []int
		for u := n - 1; u >= 0; u-- { // descending, i.e. unsorted
			if adj[v][u] {
				l = append(l, u)
				if rt.Choice("dup", 2) == 1 {
					l = append(l, u)
				}
			}
		}
		nb[v] = l
	}
	g := NewSparse(n, nb)
	vgAgree(g, adj, "NewSparse")
	for v := range nb {
		for k := range nb[v] {
			nb[v][k] = rt.IntIn("scribble", 0, n)
		}
	}
	vgAgree(g, adj, "NewSparse after the caller modified its lists")
	// the constructed graph is an ordinary editable graph: one edit of it (the lists it was
	// built from must not share capacity with each other)
	if n >= 1 {
		model := vgCopyAdj(adj)
		switch rt.Choice("edit", 3) {
		case 0:
			u, v := rt.Choice("u", n), rt.Choice("v", n)
			g.AddEdge(u, v)
			if u != v {
				model[u][v], model[v][u] = true, true
			}
		case 1:
			var nbrs []int
			grown := make([][]bool, n+1)
			for i := range grown {
				grown[i] = make([]bool, n+1)
				if i < n {
					copy(grown[i], model[i])
				}
			}
			for u := 0; u < n; u++ {
				if rt.Choice("nb", 2) == 1 {
					nbrs = append(nbrs, u)
					grown[u][n], grown[n][u] = true, true
				}
			}
			g.AddVertex(nbrs)
			model = grown
		default:
			u, v := rt.Choice("u", n), rt.Choice("v", n)
			if u != v {
				// SplitEdge on an edge or a non-edge: a new vertex joined to both ends
				SplitEdge(g, u, v)
				grown := make([][]bool, n+1)
				for i := range grown {
					grown[i] = make([]bool, n+1)
					if i < n {
						copy(grown[i], model[i])
					}
				}
				grown[u][v], grown[v][u] = false, false
				grown[u][n], grown[n][u], grown[v][n], grown[n][v] = true, true, true, true
				model = grown
			}
		}
		vgAgree(g, model, "NewSparse followed by an edit")
	}
	g2 := NewSparse(n, nil)
	c06Def(g2, n, func(i, j int) bool { return false }, "NewSparse(nil)")
	rt.Reach("end")
}

func H_c06_newsparse_q() { c06NewSparse(3) }
func H_c06_newsparse_t() { c06NewSparse(4) }

// c06Transform: transformations and views over all labelled graphs of order <= N.
func c06Transform(N int) {
	n := rt.Choice("n", N+1)
	adj := vgAdj(n, vgBits(n))
	var g EditableGraph
	if rt.Choice("rep", 2) == 0 {
		g = vgDense(adj)
	} else {
		g = vgSparse(adj)
	}
	switch rt.Choice("t", 6) {
	case 0:
		c06Def(ComplementDense(g), n, func(i, j int) bool { return !adj[i][j] }, "ComplementDense")
	case 1:
		c06Def(Complement(g), n, func(i, j int) bool { return !adj[i][j] }, "Complement view")
	case 2:
		// vertices of the line graph = edges (i<j) ordered by j then i
		type e struct{ i, j int }
		var es []e
		for j := 0; j < n; j++ {
			for i := 0; i < j; i++ {
				if adj[i][j] {
					es = append(es, e{i, j})
				}
			}
		}
		c06Def(LineGraphDense(g), len(es), func(a, b int) bool {
			x, y := es[a], es[b]
			return x.i == y.i || x.i == y.j || x.j == y.i || x.j == y.j
		}, "LineGraphDense")
	case 3:
		V := vgSeq("V", n, n)
		h := InducedSubgraph(g, append([]int{}, V...))
		c06Def(h, len(V), func(a, b int) bool { return adj[V[a]][V[b]] }, "InducedSubgraph view")
	case 4:
		rt.Assume(n >= 2)
		i := rt.Concrete(rt.IntIn("i", 0, n-1))
		j := rt.Concrete(rt.IntIn("j", 0, n-1))
		rt.Assume(i != j)
		SplitEdge(g, i, j)
		c06Def(g, n+1, func(a, b int) bool {
			if a == n || b == n {
				o := a + b - n
				return o == i || o == j
			}
			if (a == i && b == j) || (a == j && b == i) {
				return false
			}
			return adj[a][b]
		}, "SplitEdge")
	case 5:
		rt.Assume(n >= 2)
		i := rt.Concrete(rt.IntIn("i", 0, n-1))
		j := rt.Concrete(rt.IntIn("j", 0, n-1))
		rt.Assume(i != j)
		Contract(g, i, j)
		old := func(a int) int { // new index -> old index
			if a >= j {
				return a + 1
			}
			return a
		}
		c06Def(g, n-1, func(a, b int) bool {
			oa, ob := old(a), old(b)
			if adj[oa][ob] {
				return true
			}
			if oa == i && adj[j][ob] {
				return true
			}
			if ob == i && adj[j][oa] {
				return true
			}
			return false
		}, "Contract")
	}
	rt.Reach("end")
}

func H_c06_transform_q() { c06Transform(4) }
func H_c06_transform_t() { c06Transform(5) }

// c06Random: every outcome of the random draws is a path (rand is stubbed).
func c06Random(N int) {
	n := rt.Choice("n", N+1)
	if rt.Choice("which", 2) == 0 {
		g := RandomGraph(n, 0.5, 1)
		c08WellFormed(g, n, "RandomGraph")
	} else {
		rt.Assume(n >= 2)
		t := RandomTree(n, 1)
		adj := c08WellFormed(t, n, "RandomTree")
		if adj != nil {
			rt.Check(c07IsTree(adj), "RandomTree: not a tree")
		}
	}
	rt.Reach("end")
}

func H_c06_random_q() { c06Random(4) }
func H_c06_random_t() { c06Random(5) }
