package graph

import (
	"github.com/Tom-Johnston/mamba/sortints"
	rt "github.com/Tom-Johnston/mamba/zzverifrt"
)

// vgBits draws the n(n-1)/2 edge bits of a labelled graph and pins them (one
// path per labelled graph).
func vgBits(n int) []byte {
	e := make([]byte, n*(n-1)/2)
	for k := range e {
		e[k] = rt.ConcreteByte(rt.Bit("e"))
	}
	return e
}

func vgAdj(n int, e []byte) [][]bool {
	adj := make([][]bool, n)
	for i := range adj {
		adj[i] = make([]bool, n)
	}
	for j := 1; j < n; j++ {
		for i := 0; i < j; i++ {
			if e[j*(j-1)/2+i] > 0 {
				adj[i][j], adj[j][i] = true, true
			}
		}
	}
	return adj
}

func vgEdgesOf(adj [][]bool) []byte {
	n := len(adj)
	e := make([]byte, n*(n-1)/2)
	for j := 1; j < n; j++ {
		for i := 0; i < j; i++ {
			if adj[i][j] {
				e[j*(j-1)/2+i] = 1
			}
		}
	}
	return e
}

// vgDense builds a DenseGraph directly in its fields with consistent caches
// (so that constructor defects do not contaminate other properties).
func vgDense(adj [][]bool) *DenseGraph {
	n := len(adj)
	deg := make([]int, n)
	m := 0
	for i := 0; i < n; i++ {
		for j := 0; j < n; j++ {
			if adj[i][j] {
				deg[i]++
				if i < j {
					m++
				}
			}
		}
	}
	return &DenseGraph{NumberOfVertices: n, NumberOfEdges: m, DegreeSequence: deg, Edges: vgEdgesOf(adj)}
}

func vgSparse(adj [][]bool) *SparseGraph {
	n := len(adj)
	deg := make([]int, n)
	nb := make([]sortints.SortedInts, n)
	m := 0
	for i := 0; i < n; i++ {
		nb[i] = sortints.SortedInts{}
		for j := 0; j < n; j++ {
			if adj[i][j] {
				nb[i] = append(nb[i], j)
				deg[i]++
				if i < j {
					m++
				}
			}
		}
	}
	return &SparseGraph{NumberOfVertices: n, NumberOfEdges: m, Neighbourhoods: nb, DegreeSequence: deg}
}

func vgCopyAdj(adj [][]bool) [][]bool {
	out := make([][]bool, len(adj))
	for i := range adj {
		out[i] = append([]bool{}, adj[i]...)
	}
	return out
}

// vgRelabel returns the adjacency of the graph in which vertex v of adj is renamed perm[v].
func vgRelabel(adj [][]bool, perm []int) [][]bool {
	n := len(adj)
	out := make([][]bool, n)
	for i := range out {
		out[i] = make([]bool, n)
	}
	for i := 0; i < n; i++ {
		for j := 0; j < n; j++ {
			out[perm[i]][perm[j]] = adj[i][j]
		}
	}
	return out
}

// vgAgree: every observer of g agrees with the adjacency-matrix model.
func vgAgree(g Graph, adj [][]bool, what string) {
	n := len(adj)
	rt.Check(g.N() == n, what+": N() wrong")
	if g.N() != n {
		return
	}
	m := 0
	deg := make([]int, n)
	for i := 0; i < n; i++ {
		for j := 0; j < n; j++ {
			if adj[i][j] {
				deg[i]++
				if i < j {
					m++
				}
			}
		}
	}
	rt.Check(g.M() == m, what+": M() differs from the number of edges")
	d := g.Degrees()
	rt.Check(len(d) == n, what+": Degrees() has wrong length")
	for i := 0; i < n && i < len(d); i++ {
		rt.Check(d[i] == deg[i], what+": Degrees() differs from adjacency")
	}
	for i := 0; i < n; i++ {
		for j := 0; j < n; j++ {
			rt.Check(g.IsEdge(i, j) == adj[i][j], what+": IsEdge differs from the model")
		}
	}
	for v := 0; v < n; v++ {
		nb := g.Neighbours(v)
		rt.Check(len(nb) == deg[v], what+": Neighbours has wrong length")
		if len(nb) != deg[v] {
			continue
		}
		k := 0
		for u := 0; u < n; u++ {
			if adj[v][u] {
				rt.Check(nb[k] == u, what+": Neighbours is not the ascending adjacency list")
				k++
			}
		}
	}
}

// vgSeq draws a sequence of distinct vertices of {0..n-1} of symbolic length <= maxLen, in symbolic order.
func vgSeq(name string, n, maxLen int) []int {
	if maxLen > n {
		maxLen = n
	}
	l := rt.Choice(name+".len", maxLen+1)
	s := make([]int, l)
	for k := range s {
		s[k] = rt.Concrete(rt.IntIn(name, 0, n-1))
		for q := 0; q < k; q++ {
			rt.Assume(s[q] != s[k])
		}
	}
	return s
}

// vgPerm draws a permutation of 0..n-1 (forks n! ways).
func vgPerm(name string, n int) []int {
	p := make([]int, n)
	for k := range p {
		p[k] = rt.Concrete(rt.IntIn(name, 0, n-1))
		for q := 0; q < k; q++ {
			rt.Assume(p[q] != p[k])
		}
	}
	return p
}

func vgSameAdj(a, b [][]bool) bool {
	if len(a) != len(b) {
		return false
	}
	for i := range a {
		for j := range a {
			if a[i][j] != b[i][j] {
				return false
			}
		}
	}
	return true
}

// vgAdjOf reads a graph's adjacency through IsEdge.
func vgAdjOf(g Graph) [][]bool {
	n := g.N()
	adj := make([][]bool, n)
	for i := range adj {
		adj[i] = make([]bool, n)
		for j := 0; j < n; j++ {
			if i != j {
				adj[i][j] = g.IsEdge(i, j)
			}
		}
	}
	return adj
}

// vgDrain receives, without blocking, everything a producer left in its buffered channel
// and reports whether the producer closed the channel (a consumer ranging over it would
// otherwise wait for ever).
func vgDrain(ch chan []int) (out [][]int, closed bool) {
	for {
		select {
		case c, ok := <-ch:
			if !ok {
				return out, true
			}
			out = append(out, c)
		default:
			return out, false
		}
	}
}
