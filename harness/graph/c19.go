package graph

import (
	rt "github.com/Tom-Johnston/mamba/zzverifrt"
)

// c19Observers: read-only observers on ONE shared graph from two actors.
func c19Observers(N int) {
	n := rt.Choice("n", N+1)
	adj := vgAdj(n, vgBits(n))
	var g Graph
	if rt.Choice("rep", 2) == 0 {
		g = vgDense(adj)
	} else {
		g = vgSparse(adj)
	}
	f := rt.Choice("fnA", 12)
	h := rt.Choice("fnB", 12)
	run := func(k int) int {
		switch k {
		case 7:
			return IndependenceNumber(g)
		case 8:
			// degree queries through the lazy complement view
			s := 0
			for _, d := range Complement(g).Degrees() {
				s += d
			}
			return s
		case 9:
			d, _ := Degeneracy(g)
			return d
		case 10:
			x, _ := ChromaticIndex(g)
			return x
		case 11:
			// PruferEncode is defined on trees only
			if n < 2 || !c07IsTree(adj) {
				return -2
			}
			code := PruferEncode(g)
			s := 0
			for _, v := range code {
				s = s*n + v
			}
			return s
		case 6:
			// every outcome of the draws is a path, so only the shape of the result is
			// compared with a solo run; the shared state at stake is the random source
			c := RandomMaximalClique(g, 1)
			for i := range c {
				for j := i + 1; j < len(c); j++ {
					if c[i] == c[j] || !g.IsEdge(c[i], c[j]) {
						return -1
					}
				}
			}
			return 0
		case 0:
			return CliqueNumber(g)
		case 1:
			x, _ := ChromaticNumber(g)
			return x
		case 2:
			if IsPlanar(g) {
				return 1
			}
			return 0
		case 3:
			return Girth(g)
		case 4:
			p := CanonicalIsomorph(g)
			return len(p)
		default:
			b, _ := BiconnectedComponents(g)
			return len(b)
		}
	}
	rt.ActorBegin(1)
	a := run(f)
	rt.ActorEnd()
	rt.ActorBegin(2)
	b := run(h)
	rt.ActorEnd()
	// a third actor reads every cell of the shared graph: any write by an observer conflicts with it
	rt.ActorBegin(3)
	g.N()
	g.M()
	g.Degrees()
	for v := 0; v < n; v++ {
		g.Neighbours(v)
		for u := 0; u < n; u++ {
			g.IsEdge(u, v)
		}
	}
	rt.ActorEnd()
	rt.FootprintCheck()
	// after the actors: a lazily filled cache must still be cold when they run
	soloA, soloB := 0, 0
	if f != 6 {
		soloA = run(f)
	}
	if h != 6 {
		soloB = run(h)
	}
	rt.Check(a == soloA && b == soloB, "result differs from the result obtained running alone")
	vgAgree(g, adj, "an observer modified the shared graph")
	rt.Reach("end")
}

func H_c19_observers_q() { c19Observers(4) }
func H_c19_observers_t() { c19Observers(5) }

// c19Canon: two canonical labellings with separate storage on separate graphs.
func c19Canon(N int) {
	n1 := rt.Choice("n1", N+1)
	a1 := vgAdj(n1, vgBits(n1))
	n2 := rt.Choice("n2", N+1)
	a2 := vgAdj(n2, vgBits(n2))
	g1, g2 := vgSparse(a1), vgSparse(a2)
	nb := func(g *SparseGraph) [][]int {
		out := make([][]int, g.N())
		for v := range out {
			out[v] = g.Neighbours(v)
		}
		return out
	}
	nb1, nb2 := nb(g1), nb(g2)
	s1, s2 := NewStorage(N, N*(N-1)/2), NewStorage(N, N*(N-1)/2)
	o1, o2 := NewOrderedPartition(N, N*(N-1)/2, nil), NewOrderedPartition(N, N*(N-1)/2, nil)
	rt.ActorBegin(1)
	o1.Reset(n1, g1.M(), nil)
	p1, _, _ := CanonicalIsomorphAllocated(n1, g1.M(), nb1, o1, s1, new(CanonicalOptions))
	ch := make(chan []int, 1<<uint(n1)+1)
	AllMaximalCliques(g1, ch)
	_, closed1 := vgDrain(ch)
	rt.ActorEnd()
	rt.ActorBegin(2)
	o2.Reset(n2, g2.M(), nil)
	p2, _, _ := CanonicalIsomorphAllocated(n2, g2.M(), nb2, o2, s2, new(CanonicalOptions))
	ch2 := make(chan []int, 1<<uint(n2)+1)
	AllMaximalCliques(g2, ch2)
	_, closed2 := vgDrain(ch2)
	rt.ActorEnd()
	rt.Check(closed1 && closed2, "a producer returned without closing its channel: its consumer goroutine would never finish")
	rt.FootprintCheck()
	f1, f2 := CanonicalIsomorph(g1), CanonicalIsomorph(g2)
	for i := range f1 {
		rt.Check(p1[i] == f1[i], "actor 1 result differs from a solo run")
	}
	for i := range f2 {
		rt.Check(p2[i] == f2[i], "actor 2 result differs from a solo run")
	}
	rt.Reach("end")
}

func H_c19_canon_q() { c19Canon(3) }
func H_c19_canon_t() { c19Canon(4) }
