package graph

import (
	rt "github.com/Tom-Johnston/mamba/zzverifrt"
)

// c01Canon: the canonical labelled graph of adj computed through the library's
// CanonicalIsomorph on representation rep (0 dense, 1 sparse); the relabelling
// itself is done by the harness.  ok=false if the result is not a permutation.
func c01Canon(adj [][]bool, rep int, what string) ([][]bool, bool) {
	n := len(adj)
	var g Graph
	if rep == 0 {
		g = vgDense(adj)
	} else {
		g = vgSparse(adj)
	}
	p := CanonicalIsomorph(g)
	rt.Check(len(p) == n, what+": CanonicalIsomorph has the wrong length")
	if len(p) != n {
		return nil, false
	}
	seen := make([]bool, n)
	for _, v := range p {
		ok := v >= 0 && v < n && !seen[v]
		rt.Check(ok, what+": CanonicalIsomorph is not a permutation of 0..n-1")
		if !ok {
			return nil, false
		}
		seen[v] = true
	}
	c := make([][]bool, n)
	for i := range c {
		c[i] = make([]bool, n)
		for j := range c[i] {
			c[i][j] = adj[p[i]][p[j]]
		}
	}
	return c, true
}

func c01Transposition(n, a int) []int {
	p := make([]int, n)
	for i := range p {
		p[i] = i
	}
	p[a], p[a+1] = p[a+1], p[a]
	return p
}

// c01Invariant: canon(g) is the same labelled graph for g, for tau.g (every tau
// in taus) and in both representations.
func c01Invariant(adj [][]bool, taus [][]int) {
	base, ok := c01Canon(adj, 0, "dense")
	if !ok {
		return
	}
	sp, ok := c01Canon(adj, 1, "sparse")
	if ok {
		rt.Check(vgSameAdj(base, sp), "canonical graph differs between DenseGraph and SparseGraph")
	}
	for _, tau := range taus {
		c, ok := c01Canon(vgRelabel(adj, tau), 0, "relabelled")
		if ok {
			rt.Check(vgSameAdj(base, c), "canonical graph changes under relabelling (isomorphic graphs get different canonical graphs)")
		}
	}
}

func c01All(N int) {
	n := rt.Choice("n", N+1)
	adj := vgAdj(n, vgBits(n))
	c01Invariant(adj, c09Taus(n))
	rt.Reach("end")
}

func H_c01_all_q() { c01All(5) }
func H_c01_all_t() { c01All(6) }

// c01RegularBits draws the edge bits of a d-regular graph on n vertices: the
// degree constraints are assumed before the bits are pinned, so the solver prunes
// every prefix that cannot be completed (leaves = the labelled d-regular graphs).
func c01RegularBits(n, d int, slice bool) [][]bool {
	return c01RegularBitsX(n, d, slice, false)
}

// c01RegularBitsX: with c4 the slice is narrowed further to graphs in which vertex 0
// lies on a 4-cycle 0-1-x-2 (only used with d = 2).
func c01RegularBitsX(n, d int, slice, c4 bool) [][]bool {
	bits := make([][]byte, n)
	for i := range bits {
		bits[i] = make([]byte, n)
	}
	for j := 1; j < n; j++ {
		for i := 0; i < j; i++ {
			b := rt.Bit("e")
			bits[i][j], bits[j][i] = b, b
		}
	}
	for v := 0; v < n; v++ {
		s := byte(0)
		for u := 0; u < n; u++ {
			if u != v {
				s += bits[v][u]
			}
		}
		rt.Assume(s == byte(d))
	}
	if slice {
		// the quick slice: N(0) = {1, .., d}
		for u := 1; u < n; u++ {
			if u <= d {
				rt.Assume(bits[0][u] == 1)
			} else {
				rt.Assume(bits[0][u] == 0)
			}
		}
	}
	if c4 {
		rt.Assume(bits[1][2] == 0)
		common := false
		for x := 3; x < n; x++ {
			common = rt.Or(common, rt.And(bits[1][x] == 1, bits[2][x] == 1))
		}
		rt.Assume(common)
	}
	adj := make([][]bool, n)
	for i := range adj {
		adj[i] = make([]bool, n)
	}
	for j := 1; j < n; j++ {
		for i := 0; i < j; i++ {
			e := rt.ConcreteByte(bits[i][j]) == 1
			adj[i][j], adj[j][i] = e, e
		}
	}
	return adj
}

func c01Regular(n, d int, slice bool) {
	adj := c01RegularBits(n, d, slice)
	var taus [][]int
	for a := 0; a+1 < n; a++ {
		taus = append(taus, c01Transposition(n, a))
	}
	c01Invariant(adj, taus)
	rt.Reach("end")
}

func H_c01_regular_q()    { c01Regular(8, 3, true) }
func H_c01_regular8_3_t() { c01Regular(8, 3, false) }
func H_c01_regular8_4_t() { c01Regular(8, 4, false) }
func H_c01_regular8_x_t() {
	d := []int{0, 1, 2, 5, 6, 7}[rt.Choice("d", 6)]
	c01Regular(8, d, false)
}
func H_c01_regular7_t() {
	d := []int{2, 4}[rt.Choice("d", 2)]
	c01Regular(7, d, false)
}

// 2-regular graphs (disjoint unions of cycles) and their complements on 9-10 vertices:
// regular, not vertex-transitive, large automorphism groups - the family where the
// automorphism back-jump (Heuristic 1) matters.
func c01Cycles(n int, complement bool) { c01CyclesX(n, complement, false) }

func c01CyclesX(n int, complement, c4 bool) {
	adj := c01RegularBitsX(n, 2, true, c4)
	if complement {
		for i := range adj {
			for j := range adj {
				if i != j {
					adj[i][j] = !adj[i][j]
				}
			}
		}
	}
	var taus [][]int
	for a := 0; a+1 < n; a++ {
		taus = append(taus, c01Transposition(n, a))
	}
	c01Invariant(adj, taus)
	rt.Reach("end")
}

func H_c01_cycles10c4_q() { c01CyclesX(10, true, true) }
func H_c01_cycles10_t()   { c01Cycles(10, false) }
func H_c01_cycles10c_t()  { c01Cycles(10, true) }
func H_c01_cycles9_t()    { c01Cycles(9, rt.Choice("complement", 2) == 1) }

// c01SymMerge: unit contract of the stable merge used by equitable refinement
// (the refinement must not depend on vertex labels, which rests on stability):
// symMerge(data, a, m, b) merges two runs sorted by value into one run sorted by
// value in which equal values keep their relative order.  Runs are drawn as
// non-decreasing sequences over {0,1,2}; keys record the original positions.
func c01SymMerge(L1, L2 int) {
	pre := rt.Choice("pre", 2) // elements before a that must not move
	l1 := 1 + rt.Choice("l1", L1)
	l2 := 1 + rt.Choice("l2", L2)
	n := pre + l1 + l2 + 1
	data := make([]keyValue, n)
	run := func(from, to int) {
		v := 0
		for i := from; i < to; i++ {
			v += rt.Choice("inc", 3-v) // non-decreasing, values in {0,1,2}
			data[i] = keyValue{key: i, value: v}
		}
	}
	for i := 0; i < pre; i++ {
		data[i] = keyValue{key: i, value: 9}
	}
	run(pre, pre+l1)
	run(pre+l1, pre+l1+l2)
	data[n-1] = keyValue{key: n - 1, value: -9}
	orig := append([]keyValue{}, data...)
	symMerge(data, pre, pre+l1, pre+l1+l2)
	for i := 0; i < pre; i++ {
		rt.Check(data[i] == orig[i], "symMerge moved an element before its range")
	}
	rt.Check(data[n-1] == orig[n-1], "symMerge moved an element after its range")
	seen := make([]bool, n)
	for i := pre; i < pre+l1+l2; i++ {
		k := data[i].key
		ok := k >= pre && k < pre+l1+l2 && !seen[k]
		rt.Check(ok, "symMerge: result is not a permutation of the two runs")
		if !ok {
			return
		}
		seen[k] = true
		rt.Check(data[i].value == orig[k].value, "symMerge: key and value separated")
		if i > pre {
			rt.Check(data[i-1].value <= data[i].value, "symMerge: result not sorted by value")
			if data[i-1].value == data[i].value {
				rt.Check(data[i-1].key < data[i].key, "symMerge: not stable (equal values out of their original order)")
			}
		}
	}
	rt.Reach("end")
}

func H_c01_symmerge_q() { c01SymMerge(5, 5) }
func H_c01_symmerge_t() { c01SymMerge(9, 9) }

// c01CycleTypes: every cycle type (partition of n into parts >= 3) as a disjoint union of
// cycles on n vertices, and its complement, relabelled by fixed label-mixing maps
// (identity, reversal, x -> a*x+1 mod n for the first (up to four) multipliers coprime to n); each of these
// labelled graphs must have the same canonical graph as its images under every adjacent
// transposition.  Unions of three or more cycles are where the search finds a better leaf
// after automorphisms have been recorded.
func c01CycleTypes(lo, hi int) { c01CycleTypesIso(lo, hi, 0) }

// With maxIso > 0 up to maxIso isolated vertices are added to the union of cycles (very
// sparse graphs; the isolated vertices form one more cell that never splits).
func c01CycleTypesIso(lo, hi, maxIso int) {
	nc := lo + rt.Choice("n", hi-lo+1)
	iso := rt.Choice("isolated", maxIso+1)
	n := nc + iso
	var types [][]int
	var gen func(rem, min int, cur []int)
	gen = func(rem, min int, cur []int) {
		if rem == 0 {
			types = append(types, append([]int{}, cur...))
			return
		}
		for p := min; p <= rem; p++ {
			if rem-p == 0 || rem-p >= p {
				gen(rem-p, p, append(cur, p))
			}
		}
	}
	gen(nc, 3, nil)
	t := types[rt.Choice("type", len(types))]
	base := make([][]bool, n)
	for i := range base {
		base[i] = make([]bool, n)
	}
	off := 0
	for _, l := range t {
		for i := 0; i < l; i++ {
			a, b := off+i, off+(i+1)%l
			base[a][b], base[b][a] = true, true
		}
		off += l
	}
	var mults []int
	for a := 2; a < n && len(mults) < 4; a++ {
		g := a
		for m := n; m != 0; {
			g, m = m, g%m
		}
		if g == 1 {
			mults = append(mults, a)
		}
	}
	sigma := make([]int, n)
	switch k := rt.Choice("sigma", 2+len(mults)); k {
	case 0:
		for x := range sigma {
			sigma[x] = x
		}
	case 1:
		for x := range sigma {
			sigma[x] = n - 1 - x
		}
	default:
		a := mults[k-2]
		for x := range sigma {
			sigma[x] = (a*x + 1) % n
		}
	}
	adj := vgRelabel(base, sigma)
	if rt.Choice("complement", 2) == 1 {
		for i := range adj {
			for j := range adj {
				if i != j {
					adj[i][j] = !adj[i][j]
				}
			}
		}
	}
	var taus [][]int
	for a := 0; a+1 < n; a++ {
		taus = append(taus, c01Transposition(n, a))
	}
	c01Invariant(adj, taus)
	rt.Reach("end")
}

func H_c01_cycletypes_q() { c01CycleTypesIso(11, 12, 2) }
func H_c01_cycletypes_t() { c01CycleTypes(13, 15) }
