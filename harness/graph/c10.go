package graph

import (
	rt "github.com/Tom-Johnston/mamba/zzverifrt"
)

// ---- oracles on the adjacency matrix

func c10Dist(adj [][]bool) [][]int {
	n := len(adj)
	const inf = 1 << 30
	d := make([][]int, n)
	for i := range d {
		d[i] = make([]int, n)
		for j := range d[i] {
			switch {
			case i == j:
				d[i][j] = 0
			case adj[i][j]:
				d[i][j] = 1
			default:
				d[i][j] = inf
			}
		}
	}
	for k := 0; k < n; k++ {
		for i := 0; i < n; i++ {
			for j := 0; j < n; j++ {
				if d[i][k]+d[k][j] < d[i][j] {
					d[i][j] = d[i][k] + d[k][j]
				}
			}
		}
	}
	for i := range d {
		for j := range d[i] {
			if d[i][j] >= inf {
				d[i][j] = -1
			}
		}
	}
	return d
}

// c10ConnectedOn: the vertices in mask induce a connected subgraph (mask non-empty).
func c10ConnectedOn(adj [][]bool, mask int) bool {
	n := len(adj)
	start := -1
	for v := 0; v < n; v++ {
		if mask>>uint(v)&1 == 1 {
			start = v
			break
		}
	}
	if start < 0 {
		return true
	}
	seen := 1 << uint(start)
	stack := []int{start}
	for len(stack) > 0 {
		v := stack[len(stack)-1]
		stack = stack[:len(stack)-1]
		for u := 0; u < n; u++ {
			if mask>>uint(u)&1 == 1 && seen>>uint(u)&1 == 0 && adj[v][u] {
				seen |= 1 << uint(u)
				stack = append(stack, u)
			}
		}
	}
	return seen == mask
}

func c10Pop(mask int) int {
	c := 0
	for ; mask != 0; mask &= mask - 1 {
		c++
	}
	return c
}

// c10IsBlockLike: S induces K1 (isolated in G), K2, or a 2-connected graph.
func c10IsBlockLike(adj [][]bool, mask int) bool {
	n := len(adj)
	sz := c10Pop(mask)
	if sz == 0 {
		return false
	}
	if sz == 1 {
		return true
	}
	if !c10ConnectedOn(adj, mask) {
		return false
	}
	if sz == 2 {
		return true
	}
	for v := 0; v < n; v++ {
		if mask>>uint(v)&1 == 1 && !c10ConnectedOn(adj, mask&^(1<<uint(v))) {
			return false
		}
	}
	return true
}

// c10Blocks: the maximal block-like vertex sets (singletons only for isolated vertices).
func c10Blocks(adj [][]bool) []int {
	n := len(adj)
	var out []int
	for mask := 1; mask < 1<<uint(n); mask++ {
		if !c10IsBlockLike(adj, mask) {
			continue
		}
		maximal := true
		for v := 0; v < n && maximal; v++ {
			if mask>>uint(v)&1 == 0 {
				// any strict superset that is block-like?  it suffices to test all supersets
			}
		}
		for sup := mask + 1; sup < 1<<uint(n); sup++ {
			if sup&mask == mask && c10IsBlockLike(adj, sup) {
				maximal = false
				break
			}
		}
		if maximal {
			out = append(out, mask)
		}
	}
	return out
}

func c10MaskOf(s []int) int {
	m := 0
	for _, v := range s {
		m |= 1 << uint(v)
	}
	return m
}

func c10Sorted(s []int) bool {
	for i := 1; i < len(s); i++ {
		if s[i-1] >= s[i] {
			return false
		}
	}
	return true
}

func c10Girth(adj [][]bool) int {
	n := len(adj)
	best := -1
	for u := 0; u < n; u++ {
		for v := u + 1; v < n; v++ {
			if !adj[u][v] {
				continue
			}
			adj[u][v], adj[v][u] = false, false
			d := c10Dist(adj)[u][v]
			adj[u][v], adj[v][u] = true, true
			if d > 0 && (best == -1 || d+1 < best) {
				best = d + 1
			}
		}
	}
	return best
}

// c10Counts: cycles, induced cycles and induced paths by length, by brute-force enumeration of vertex sequences.
func c10Counts(adj [][]bool) (cycles, indCycles, indPaths []int) {
	n := len(adj)
	cycles = make([]int, n+1)
	indCycles = make([]int, n+1)
	indPaths = make([]int, n+1)
	path := make([]int, 0, n)
	used := make([]bool, n)
	induced := func(p []int, closed bool) bool {
		for a := 0; a < len(p); a++ {
			for b := a + 2; b < len(p); b++ {
				if closed && a == 0 && b == len(p)-1 {
					continue
				}
				if adj[p[a]][p[b]] {
					return false
				}
			}
		}
		return true
	}
	var rec func()
	rec = func() {
		last := path[len(path)-1]
		// paths: count each unordered path once (first endpoint < last endpoint)
		if len(path) >= 2 && path[0] < last && induced(path, false) {
			indPaths[len(path)-1]++
		}
		// cycles through the smallest vertex path[0], orientation fixed by path[1] < last
		if len(path) >= 3 && adj[last][path[0]] && path[1] < last {
			cycles[len(path)]++
			if induced(path, true) {
				indCycles[len(path)]++
			}
		}
		for v := 0; v < n; v++ {
			if !used[v] && adj[last][v] {
				used[v] = true
				path = append(path, v)
				rec()
				path = path[:len(path)-1]
				used[v] = false
			}
		}
	}
	// induced paths: any start; cycles: only sequences whose other vertices exceed the start
	for s := 0; s < n; s++ {
		used[s] = true
		path = append(path[:0], s)
		rec()
		used[s] = false
	}
	// the cycle count above counted cycles from every start vertex; recount properly
	for i := range cycles {
		cycles[i], indCycles[i] = 0, 0
	}
	var rec2 func(s int)
	rec2 = func(s int) {
		last := path[len(path)-1]
		if len(path) >= 3 && adj[last][s] && path[1] < last {
			cycles[len(path)]++
			if induced(path, true) {
				indCycles[len(path)]++
			}
		}
		for v := s + 1; v < n; v++ {
			if !used[v] && adj[last][v] {
				used[v] = true
				path = append(path, v)
				rec2(s)
				path = path[:len(path)-1]
				used[v] = false
			}
		}
	}
	for s := 0; s < n; s++ {
		path = append(path[:0], s)
		rec2(s)
	}
	indPaths[0] = n
	return
}

func c10Distances(N int) {
	n := rt.Choice("n", N+1)
	adj := vgAdj(n, vgBits(n))
	d := c10Dist(adj)
	reps, names := c09Reps(adj)
	ecc := make([]int, n)
	conn := true
	for i := 0; i < n; i++ {
		for j := 0; j < n; j++ {
			if d[i][j] < 0 {
				conn = false
			}
			if d[i][j] > ecc[i] {
				ecc[i] = d[i][j]
			}
		}
	}
	diam, rad := 0, 0
	if n > 0 {
		rad = n
	}
	for i := 0; i < n; i++ {
		if ecc[i] > diam {
			diam = ecc[i]
		}
		if ecc[i] < rad {
			rad = ecc[i]
		}
	}
	if !conn {
		diam, rad = -1, -1
	}
	girth := c10Girth(adj)
	for r, g := range reps {
		w := " (" + names[r] + ")"
		for i := 0; i < n; i++ {
			for j := 0; j < n; j++ {
				rt.Check(Distance(g, i, j) == d[i][j], "Distance differs from the shortest-path definition"+w)
			}
		}
		e := Eccentricity(g)
		rt.Check(len(e) == n, "Eccentricity: wrong length"+w)
		for i := 0; i < n && i < len(e); i++ {
			want := ecc[i]
			if !conn {
				want = -1
			}
			rt.Check(e[i] == want, "Eccentricity wrong"+w)
		}
		rt.Check(Diameter(g) == diam, "Diameter wrong"+w)
		rt.Check(Radius(g) == rad, "Radius wrong"+w)
		rt.Check(Girth(g) == girth, "Girth wrong"+w)
	}
	for _, tau := range c09Taus(n) {
		g := vgDense(vgRelabel(adj, tau))
		rt.Check(Girth(g) == girth, "Girth changes under relabelling")
		rt.Check(Diameter(g) == diam && Radius(g) == rad, "Diameter/Radius change under relabelling")
		for i := 0; i < n; i++ {
			for j := 0; j < n; j++ {
				rt.Check(Distance(g, tau[i], tau[j]) == d[i][j], "Distance changes under relabelling")
			}
		}
	}
	rt.Reach("end")
}

func H_c10_distances_q() { c10Distances(4) }
func H_c10_distances_t() { c10Distances(6) }

func c10Components(N int) {
	n := rt.Choice("n", N+1)
	adj := vgAdj(n, vgBits(n))
	d := c10Dist(adj)
	reps, names := c09Reps(adj)
	blocks := c10Blocks(adj)
	isArt := make([]bool, n)
	for v := 0; v < n; v++ {
		// v is a cut vertex iff removing it disconnects its component
		comp := 0
		for u := 0; u < n; u++ {
			if d[v][u] >= 0 {
				comp |= 1 << uint(u)
			}
		}
		isArt[v] = !c10ConnectedOn(adj, comp&^(1<<uint(v)))
	}
	check := func(g Graph, w string, tau []int) {
		// tau maps original labels to labels of g (nil = identity)
		lab := func(v int) int {
			if tau == nil {
				return v
			}
			return tau[v]
		}
		inv := make([]int, n)
		for v := 0; v < n; v++ {
			inv[lab(v)] = v
		}
		comps := ConnectedComponents(g)
		seen := 0
		for _, c := range comps {
			rt.Check(c10Sorted(c), "ConnectedComponents: component not sorted"+w)
			rt.Check(len(c) > 0, "ConnectedComponents: empty component"+w)
			if len(c) == 0 {
				continue
			}
			m := 0
			for _, v := range c {
				ok := v >= 0 && v < n
				rt.Check(ok, "ConnectedComponents: vertex out of range"+w)
				if !ok {
					return
				}
				m |= 1 << uint(inv[v])
			}
			rt.Check(seen&m == 0, "ConnectedComponents: vertex in two components"+w)
			seen |= m
			want := 0
			for u := 0; u < n; u++ {
				if d[inv[c[0]]][u] >= 0 {
					want |= 1 << uint(u)
				}
			}
			rt.Check(m == want, "ConnectedComponents: not a connected component"+w)
		}
		rt.Check(seen == 1<<uint(n)-1, "ConnectedComponents: not a partition of the vertex set"+w)
		for v := 0; v < n; v++ {
			var c []int
			p, msg := rt.Panics(func() { c = ConnectedComponent(g, lab(v)) })
			rt.Check(!p, "ConnectedComponent panicked: "+msg+w)
			if p {
				return
			}
			rt.Check(c10Sorted(c), "ConnectedComponent: not sorted"+w)
			m := 0
			for _, u := range c {
				if u >= 0 && u < n {
					m |= 1 << uint(inv[u])
				}
			}
			want := 0
			for u := 0; u < n; u++ {
				if d[v][u] >= 0 {
					want |= 1 << uint(u)
				}
			}
			rt.Check(m == want && len(c) == c10Pop(want), "ConnectedComponent wrong"+w)
		}
		bs, arts := BiconnectedComponents(g)
		got := map[int]int{}
		for _, b := range bs {
			rt.Check(c10Sorted(b), "BiconnectedComponents: block not sorted"+w)
			m := 0
			for _, v := range b {
				ok := v >= 0 && v < n
				rt.Check(ok, "BiconnectedComponents: vertex out of range"+w)
				if !ok {
					return
				}
				m |= 1 << uint(inv[v])
			}
			got[m]++
		}
		for _, b := range blocks {
			rt.Check(got[b] == 1, "BiconnectedComponents: a block is missing or reported twice"+w)
		}
		rt.Check(len(bs) == len(blocks), "BiconnectedComponents: reports a set that is not a block"+w)
		gotArt := make([]int, n)
		for _, a := range arts {
			ok := a >= 0 && a < n
			rt.Check(ok, "BiconnectedComponents: articulation vertex out of range"+w)
			if ok {
				gotArt[inv[a]]++
			}
		}
		for v := 0; v < n; v++ {
			want := 0
			if isArt[v] {
				want = 1
			}
			rt.Check(gotArt[v] == want, "BiconnectedComponents: articulation vertices wrong"+w)
		}
	}
	for r, g := range reps {
		check(g, " ("+names[r]+")", nil)
	}
	for _, tau := range c09Taus(n) {
		check(vgDense(vgRelabel(adj, tau)), " (relabelled)", tau)
	}
	rt.Reach("end")
}

func H_c10_components_q() { c10Components(4) }
func H_c10_components_t() { c10Components(6) }

func c10Counters(N int) {
	n := rt.Choice("n", N+1)
	adj := vgAdj(n, vgBits(n))
	cyc, icyc, ipath := c10Counts(adj)
	var eg EditableGraph
	if rt.Choice("rep", 2) == 0 {
		eg = vgDense(adj)
	} else {
		eg = vgSparse(adj)
	}
	var nc []int
	p, msg := rt.Panics(func() { nc = NumberOfCycles(eg) })
	rt.Check(!p, "NumberOfCycles panicked: "+msg)
	if !p {
		vgAgree(eg, adj, "NumberOfCycles modified its argument")
		rt.Check(len(nc) == n+1, "NumberOfCycles: wrong length")
		for l := 0; l <= n && l < len(nc); l++ {
			rt.Check(nc[l] == cyc[l], "NumberOfCycles wrong")
		}
	}
	reps, names := c09Reps(adj)
	r := rt.Choice("view", len(reps))
	g := reps[r]
	w := " (" + names[r] + ")"
	ml := rt.Choice("maxLength", n+3) - 1 // -1 .. n+1
	var ic, ip []int
	p, msg = rt.Panics(func() { ic = NumberOfInducedCycles(g, ml) })
	rt.Check(!p, "NumberOfInducedCycles panicked: "+msg+w)
	if !p {
		eff := ml
		if eff < 0 || eff > n {
			eff = n
		}
		rt.Check(len(ic) == n+1, "NumberOfInducedCycles: wrong length"+w)
		for l := 0; l <= eff && l < len(ic); l++ {
			rt.Check(ic[l] == icyc[l], "NumberOfInducedCycles wrong"+w)
		}
	}
	p, msg = rt.Panics(func() { ip = NumberOfInducedPaths(g, ml) })
	rt.Check(!p, "NumberOfInducedPaths panicked: "+msg+w)
	if !p {
		eff := ml
		if eff < 0 || eff > n-1 {
			eff = n - 1
		}
		rt.Check(len(ip) == n, "NumberOfInducedPaths: wrong length"+w)
		for l := 0; l <= eff && l < len(ip); l++ {
			rt.Check(ip[l] == ipath[l], "NumberOfInducedPaths wrong"+w)
		}
	}
	rt.Reach("end")
}

func H_c10_counters_q() { c10Counters(4) }
func H_c10_counters_t() { c10Counters(5) }

// c10GirthOnly: Girth on every labelled graph of order exactly n, dense, plus the
// two relabelling generators (the BFS state that leaks between roots depends on the labelling).
func c10GirthOnly(n int) {
	adj := vgAdj(n, vgBits(n))
	want := c10Girth(adj)
	rt.Check(Girth(vgDense(adj)) == want, "Girth wrong")
	for _, tau := range c09Taus(n) {
		rt.Check(Girth(vgDense(vgRelabel(adj, tau))) == want, "Girth changes under relabelling")
	}
	rt.Reach("end")
}

func H_c10_girth6_q() { c10GirthOnly(6) }

// c10DistanceOnly: Distance for every ordered pair on every labelled graph of order exactly
// n (dense) against Floyd-Warshall (-1 for unreachable).
func c10DistanceOnly(n int) {
	adj := vgAdj(n, vgBits(n))
	const inf = 1 << 20
	d := make([][]int, n)
	for i := range d {
		d[i] = make([]int, n)
		for j := range d[i] {
			if i == j {
				d[i][j] = 0
			} else if adj[i][j] {
				d[i][j] = 1
			} else {
				d[i][j] = inf
			}
		}
	}
	for k := 0; k < n; k++ {
		for i := 0; i < n; i++ {
			for j := 0; j < n; j++ {
				if d[i][k]+d[k][j] < d[i][j] {
					d[i][j] = d[i][k] + d[k][j]
				}
			}
		}
	}
	var g Graph = vgDense(adj)
	for i := 0; i < n; i++ {
		for j := 0; j < n; j++ {
			want := d[i][j]
			if want >= inf {
				want = -1
			}
			if Distance(g, i, j) != want {
				rt.Fail("Distance differs from Floyd-Warshall")
				return
			}
		}
	}
	rt.Reach("end")
}

func H_c10_distance6_q() { c10DistanceOnly(6) }
func H_c10_girth7sparse_t() {
	// n = 7 with at most 8 edges (solver-pruned family)
	n := 7
	bits := make([]byte, n*(n-1)/2)
	cnt := byte(0)
	for k := range bits {
		bits[k] = rt.Bit("e")
		cnt += bits[k]
	}
	rt.Assume(cnt <= 8)
	for k := range bits {
		bits[k] = rt.ConcreteByte(bits[k])
	}
	adj := vgAdj(n, bits)
	want := c10Girth(adj)
	rt.Check(Girth(vgDense(adj)) == want, "Girth wrong")
	rt.Check(Girth(vgSparse(adj)) == want, "Girth wrong (sparse)")
	rt.Reach("end")
}

// c10CyclesDense: NumberOfCycles on every labelled graph on 6 vertices with at least 9
// edges (solver-pruned family; many fundamental cycles per block), dense and sparse.
func c10CyclesDense(n, minM int) {
	bits := make([]byte, n*(n-1)/2)
	cnt := byte(0)
	for k := range bits {
		bits[k] = rt.Bit("e")
		cnt += bits[k]
	}
	rt.Assume(cnt >= byte(minM))
	for k := range bits {
		bits[k] = rt.ConcreteByte(bits[k])
	}
	adj := vgAdj(n, bits)
	cyc, _, _ := c10Counts(adj)
	var eg EditableGraph
	if rt.Choice("rep", 2) == 0 {
		eg = vgDense(adj)
	} else {
		eg = vgSparse(adj)
	}
	var nc []int
	p, msg := rt.Panics(func() { nc = NumberOfCycles(eg) })
	rt.Check(!p, "NumberOfCycles panicked: "+msg)
	if !p {
		rt.Check(len(nc) == n+1, "NumberOfCycles: wrong length")
		for l := 0; l <= n && l < len(nc); l++ {
			rt.Check(nc[l] == cyc[l], "NumberOfCycles wrong")
		}
	}
	rt.Reach("end")
}

// c10InducedSparse: NumberOfInducedPaths / NumberOfInducedCycles on every labelled graph
// on n vertices with at most maxM edges (solver-pruned family: trees, unicyclic graphs and
// their subgraphs are where induced paths are long and branch).
func c10InducedSparse(n, maxM int) {
	bits := make([]byte, n*(n-1)/2)
	cnt := byte(0)
	for k := range bits {
		bits[k] = rt.Bit("e")
		cnt += bits[k]
	}
	rt.Assume(cnt <= byte(maxM))
	for k := range bits {
		bits[k] = rt.ConcreteByte(bits[k])
	}
	c10InducedCheck(vgAdj(n, bits))
	rt.Reach("end")
}

// c10InducedTrees: every labelled tree on n vertices (harness-side Pruefer decoding of
// every code), where every path is induced and the path search branches most.
func c10InducedTrees(n int) {
	code := make([]int, n-2)
	for i := range code {
		code[i] = rt.Choice("p", n)
	}
	deg := make([]int, n)
	for i := range deg {
		deg[i] = 1
	}
	for _, v := range code {
		deg[v]++
	}
	adj := make([][]bool, n)
	for i := range adj {
		adj[i] = make([]bool, n)
	}
	for _, v := range code {
		for u := 0; u < n; u++ {
			if deg[u] == 1 {
				adj[u][v], adj[v][u] = true, true
				deg[u]--
				deg[v]--
				break
			}
		}
	}
	a, b := -1, -1
	for u := 0; u < n; u++ {
		if deg[u] == 1 {
			if a < 0 {
				a = u
			} else {
				b = u
			}
		}
	}
	adj[a][b], adj[b][a] = true, true
	c10InducedCheck(adj)
	rt.Reach("end")
}

func c10InducedCheck(adj [][]bool) {
	n := len(adj)
	_, icyc, ipath := c10Counts(adj)
	var g Graph
	if rt.Choice("rep", 2) == 0 {
		g = vgDense(adj)
	} else {
		g = vgSparse(adj)
	}
	mls := []int{-1, n - 2}
	ml := mls[rt.Choice("maxLength", len(mls))]
	var ic, ip []int
	p, msg := rt.Panics(func() { ic = NumberOfInducedCycles(g, ml) })
	rt.Check(!p, "NumberOfInducedCycles panicked: "+msg)
	if !p {
		eff := ml
		if eff < 0 || eff > n {
			eff = n
		}
		rt.Check(len(ic) == n+1, "NumberOfInducedCycles: wrong length")
		for l := 0; l <= eff && l < len(ic); l++ {
			rt.Check(ic[l] == icyc[l], "NumberOfInducedCycles wrong")
		}
	}
	p, msg = rt.Panics(func() { ip = NumberOfInducedPaths(g, ml) })
	rt.Check(!p, "NumberOfInducedPaths panicked: "+msg)
	if !p {
		eff := ml
		if eff < 0 || eff > n-1 {
			eff = n - 1
		}
		rt.Check(len(ip) == n, "NumberOfInducedPaths: wrong length")
		for l := 0; l <= eff && l < len(ip); l++ {
			rt.Check(ip[l] == ipath[l], "NumberOfInducedPaths wrong")
		}
	}
}

// c10InducedAll: induced paths / cycles on every labelled graph on exactly n vertices.
func c10InducedAll(n int) {
	c10InducedCheck(vgAdj(n, vgBits(n)))
	rt.Reach("end")
}

func H_c10_induced5_q() { c10InducedAll(5) }

func H_c10_inducedtrees_q() { c10InducedTrees(6) }
func H_c10_inducedtrees_t() { c10InducedTrees(7) }
func H_c10_induced6_t()     { c10InducedAll(6) }

func H_c10_cycles6_q() { c10CyclesDense(6, 10) }
func H_c10_cycles6_t() { c10CyclesDense(6, 7) }
