package graph

import (
	rt "github.com/Tom-Johnston/mamba/zzverifrt"
)

// c11PlanarSmall: Kuratowski oracle for n <= 6.
func c11PlanarSmall(adj [][]bool) bool {
	n := len(adj)
	if n < 5 {
		return true
	}
	// K5 on 5 vertices, possibly with one edge {u,v} replaced by a path u-w-v (n = 6)
	for mask := 0; mask < 1<<uint(n); mask++ {
		if c10Pop(mask) != 5 {
			continue
		}
		var vs []int
		for v := 0; v < n; v++ {
			if mask>>uint(v)&1 == 1 {
				vs = append(vs, v)
			}
		}
		missing := 0
		mu, mv := -1, -1
		for a := 0; a < 5; a++ {
			for b := a + 1; b < 5; b++ {
				if !adj[vs[a]][vs[b]] {
					missing++
					mu, mv = vs[a], vs[b]
				}
			}
		}
		if missing == 0 {
			return false
		}
		if missing == 1 {
			for w := 0; w < n; w++ {
				if mask>>uint(w)&1 == 0 && adj[w][mu] && adj[w][mv] {
					return false
				}
			}
		}
	}
	// K3,3 as a subgraph
	if n >= 6 {
		for mask := 0; mask < 1<<uint(n); mask++ {
			if c10Pop(mask) != 6 {
				continue
			}
			var vs []int
			for v := 0; v < n; v++ {
				if mask>>uint(v)&1 == 1 {
					vs = append(vs, v)
				}
			}
			for sub := 0; sub < 1<<6; sub++ {
				if c10Pop(sub) != 3 || sub&1 == 0 {
					continue
				}
				all := true
				for a := 0; a < 6 && all; a++ {
					for b := 0; b < 6; b++ {
						if sub>>uint(a)&1 == 1 && sub>>uint(b)&1 == 0 && !adj[vs[a]][vs[b]] {
							all = false
							break
						}
					}
				}
				if all {
					return false
				}
			}
		}
	}
	return true
}

// c11Planar7: oracle for n == 7 by Wagner's theorem.  A Kuratowski minor (5 or 6 vertices)
// of a 7-vertex graph is reached by first deleting an unused vertex or first contracting an
// edge inside a branch set, so G is planar iff every G-v and every G/e (6 vertices) is.
func c11Planar7(adj [][]bool) bool {
	n := len(adj)
	m := 0
	for i := 0; i < n; i++ {
		for j := i + 1; j < n; j++ {
			if adj[i][j] {
				m++
			}
		}
	}
	if m > 3*n-6 {
		return false
	}
	minor := func(drop, into int) [][]bool {
		// vertices other than drop, renumbered; drop's edges go to `into` when into >= 0
		idx := make([]int, n)
		k := 0
		for v := 0; v < n; v++ {
			if v != drop {
				idx[v] = k
				k++
			}
		}
		out := make([][]bool, n-1)
		for i := range out {
			out[i] = make([]bool, n-1)
		}
		for a := 0; a < n; a++ {
			for b := 0; b < n; b++ {
				if !adj[a][b] || a == b {
					continue
				}
				x, y := a, b
				if x == drop {
					x = into
				}
				if y == drop {
					y = into
				}
				if x < 0 || y < 0 || x == y {
					continue
				}
				out[idx[x]][idx[y]] = true
				out[idx[y]][idx[x]] = true
			}
		}
		return out
	}
	for v := 0; v < n; v++ {
		if !c11PlanarSmall(minor(v, -1)) {
			return false
		}
	}
	for u := 0; u < n; u++ {
		for v := u + 1; v < n; v++ {
			if adj[u][v] && !c11PlanarSmall(minor(v, u)) {
				return false
			}
		}
	}
	return true
}

// c11Hamilton7: the 6-cycle 0-1-2-3-4-5 with every set of chords (2^9) and vertex 6 joined
// to every set of at most D cycle vertices: the first cycle found has many chords, whose
// admissible faces diverge as fragments are embedded.  Identity and two relabelling generators.
func c11Hamilton7(D int) {
	n := 7
	adj := make([][]bool, n)
	for i := range adj {
		adj[i] = make([]bool, n)
	}
	for i := 0; i < 6; i++ {
		j := (i + 1) % 6
		adj[i][j], adj[j][i] = true, true
	}
	for i := 0; i < 6; i++ {
		for j := i + 2; j < 6; j++ {
			if i == 0 && j == 5 {
				continue
			}
			if rt.Choice("chord", 2) == 1 {
				adj[i][j], adj[j][i] = true, true
			}
		}
	}
	deg := 0
	for i := 0; i < 6; i++ {
		if deg < D && rt.Choice("spoke", 2) == 1 {
			adj[i][6], adj[6][i] = true, true
			deg++
		}
	}
	want := c11Planar7(adj)
	got, ok := c11Call(vgDense(adj), "dense")
	if ok {
		rt.Check(got == want, "IsPlanar differs from the Wagner oracle (6-cycle with chords + one vertex)")
	}
	got, ok = c11Call(vgSparse(adj), "sparse")
	if ok {
		rt.Check(got == want, "IsPlanar differs from the Wagner oracle (sparse)")
	}
	for _, tau := range c09Taus(n) {
		got, ok := c11Call(vgDense(vgRelabel(adj, tau)), "relabelled")
		if ok {
			rt.Check(got == want, "IsPlanar changes under relabelling")
		}
	}
	rt.Reach("end")
}

// c11EarConfigs: a 6-cycle on positions 0..5 with a set of K chords (bit k of the chord
// mask = k-th non-cycle pair) and a seventh vertex joined to E cycle vertices, one
// representative per orbit of the dihedral group of the cycle (the least (chords, ear) code).
func c11EarConfigs(Ks, Es []int) [][2]int {
	type pr struct{ a, b int }
	var pairs []pr
	for i := 0; i < 6; i++ {
		for j := i + 2; j < 6; j++ {
			if !(i == 0 && j == 5) {
				pairs = append(pairs, pr{i, j})
			}
		}
	}
	pairIndex := func(a, b int) int {
		if a > b {
			a, b = b, a
		}
		for k, p := range pairs {
			if p.a == a && p.b == b {
				return k
			}
		}
		return -1
	}
	in := func(x int, xs []int) bool {
		for _, y := range xs {
			if x == y {
				return true
			}
		}
		return false
	}
	var out [][2]int
	for cm := 0; cm < 1<<uint(len(pairs)); cm++ {
		if !in(c10Pop(cm), Ks) {
			continue
		}
		for em := 0; em < 1<<6; em++ {
			if !in(c10Pop(em), Es) {
				continue
			}
			least := true
			for r := 0; r < 12 && least; r++ {
				img := func(v int) int {
					if r < 6 {
						return (v + r) % 6
					}
					return (6 + r - v) % 6
				}
				cm2, em2 := 0, 0
				for k, p := range pairs {
					if cm>>uint(k)&1 == 1 {
						cm2 |= 1 << uint(pairIndex(img(p.a), img(p.b)))
					}
				}
				for v := 0; v < 6; v++ {
					if em>>uint(v)&1 == 1 {
						em2 |= 1 << uint(img(v))
					}
				}
				if cm2 < cm || (cm2 == cm && em2 < em) {
					least = false
				}
			}
			if least {
				out = append(out, [2]int{cm, em})
			}
		}
	}
	return out
}

// c11FirstCycleChords: the cycle closed by the greedy walk from label 0 that always moves
// to the smallest neighbour other than the vertex it came from (the cycle a path-addition
// embedder starts from), under the labelling perm (base vertex -> label): its number of chords.
func c11FirstCycleChords(adj [][]bool, perm []int) int {
	n := len(adj)
	inv := make([]int, n)
	for v, l := range perm {
		inv[l] = v
	}
	pos := make([]int, n) // position on the walk + 1
	var walk []int
	cur, parent := 0, -1
	for {
		pos[cur] = len(walk) + 1
		walk = append(walk, cur)
		next := -1
		for l := 0; l < n; l++ {
			if l != parent && l != cur && adj[inv[cur]][inv[l]] {
				next = l
				break
			}
		}
		if next < 0 {
			return 0
		}
		if pos[next] > 0 {
			cyc := walk[pos[next]-1:]
			k := len(cyc)
			chords := 0
			for x := 0; x < k; x++ {
				for y := x + 2; y < k; y++ {
					if x == 0 && y == k-1 {
						continue
					}
					if adj[inv[cyc[x]]][inv[cyc[y]]] {
						chords++
					}
				}
			}
			return chords
		}
		parent, cur = cur, next
	}
}

// c11EarLabellings: every labelling (of the 5040) of every such graph under which that first
// cycle has at least C chords; the loop over the labellings runs inside one path and the Wagner
// oracle is evaluated once per graph.  The canonically labelled graphs of the repository's
// own planarity test never start from a cycle with chords.
func c11EarLabellings(Ks, Es []int, C int) {
	cfgs := c11EarConfigs(Ks, Es)
	cfg := cfgs[rt.Choice("config", len(cfgs))]
	n := 7
	adj := make([][]bool, n)
	for i := range adj {
		adj[i] = make([]bool, n)
	}
	for i := 0; i < 6; i++ {
		j := (i + 1) % 6
		adj[i][j], adj[j][i] = true, true
	}
	k := 0
	for i := 0; i < 6; i++ {
		for j := i + 2; j < 6; j++ {
			if i == 0 && j == 5 {
				continue
			}
			if cfg[0]>>uint(k)&1 == 1 {
				adj[i][j], adj[j][i] = true, true
			}
			k++
		}
	}
	for v := 0; v < 6; v++ {
		if cfg[1]>>uint(v)&1 == 1 {
			adj[v][6], adj[6][v] = true, true
		}
	}
	want := c11Planar7(adj)
	// Heap's algorithm over all labellings
	perm := []int{0, 1, 2, 3, 4, 5, 6}
	c := make([]int, n)
	count := 0
	visit := func() bool {
		count++
		if c11FirstCycleChords(adj, perm) < C {
			return true
		}
		rel := vgRelabel(adj, perm)
		got, ok := c11Call(vgDense(rel), "relabelled")
		if !ok {
			return false
		}
		if got != want {
			rt.Fail("IsPlanar gives the wrong answer for a labelling whose first cycle has chords (6-cycle with chords and an ear)")
			return false
		}
		return true
	}
	if !visit() {
		return
	}
	for i := 0; i < n; {
		if c[i] < i {
			if i%2 == 0 {
				perm[0], perm[i] = perm[i], perm[0]
			} else {
				perm[c[i]], perm[i] = perm[i], perm[c[i]]
			}
			if !visit() {
				return
			}
			c[i]++
			i = 0
		} else {
			c[i] = 0
			i++
		}
	}
	rt.Check(count == 5040, "harness: not all labellings visited")
	rt.Reach("end")
}

func H_c11_earlabellings_q() { c11EarLabellings([]int{3}, []int{2}, 3) }
func H_c11_earlabellings_t() { c11EarLabellings([]int{2, 3, 4}, []int{2, 3}, 2) }

func H_c11_hamilton7_t() { c11Hamilton7(6) }

func c11Call(g Graph, what string) (bool, bool) {
	var r bool
	p, msg := rt.Panics(func() { r = IsPlanar(g) })
	rt.Check(!p, "IsPlanar panicked ("+what+"): "+msg)
	return r, !p
}

func c11Small(N int) {
	n := rt.Choice("n", N+1)
	adj := vgAdj(n, vgBits(n))
	want := c11PlanarSmall(adj)
	reps, names := c09Reps(adj)
	for r, g := range reps {
		got, ok := c11Call(g, names[r])
		if ok {
			rt.Check(got == want, "IsPlanar differs from the Kuratowski oracle ("+names[r]+")")
		}
	}
	for _, tau := range c09Taus(n) {
		got, ok := c11Call(vgDense(vgRelabel(adj, tau)), "relabelled")
		if ok {
			rt.Check(got == want, "IsPlanar changes under relabelling")
		}
	}
	// relabelling through the lazy InducedSubgraph view (vertex order reversed / rotated)
	if n > 0 {
		rev, rot := make([]int, n), make([]int, n)
		for v := 0; v < n; v++ {
			rev[v] = n - 1 - v
			rot[v] = (v + 1) % n
		}
		for k, V := range [][]int{rev, rot} {
			var base Graph = vgDense(adj)
			if k == 1 {
				base = vgSparse(adj)
			}
			got, ok := c11Call(InducedSubgraph(base, V), "relabelling view")
			if ok {
				rt.Check(got == want, "IsPlanar differs on a relabelling view of the graph")
			}
		}
	}
	rt.Reach("end")
}

func H_c11_small_q() { c11Small(5) }
func H_c11_small_t() { c11Small(6) }

// c11Closure: planarity of graphs derived from an n<=N base graph by steps that
// preserve planarity status (subdivide an edge, add an isolated or pendant
// vertex, relabel), and by edge deletions (planar stays planar).
func c11Closure(N, steps, minM, minM6 int) {
	n := 4 + rt.Choice("n", N-3)
	adj := vgAdj(n, vgBits(n))
	m := 0
	for i := range adj {
		for j := i + 1; j < n; j++ {
			if adj[i][j] {
				m++
			}
		}
	}
	if n >= 6 {
		rt.Assume(m >= minM6)
	} else {
		rt.Assume(m >= minM)
	}
	want := c11PlanarSmall(adj)
	cur := vgCopyAdj(adj)
	grow := func(a [][]bool) [][]bool {
		k := len(a)
		out := make([][]bool, k+1)
		for i := range out {
			out[i] = make([]bool, k+1)
			if i < k {
				copy(out[i], a[i])
			}
		}
		return out
	}
	for s := 0; s < steps; s++ {
		k := len(cur)
		switch rt.Choice("step", 3) {
		case 0: // subdivide a symbolic edge
			i := rt.Concrete(rt.IntIn("i", 0, k-2))
			j := rt.Concrete(rt.IntIn("j", i+1, k-1))
			rt.Assume(cur[i][j])
			cur = grow(cur)
			cur[i][j], cur[j][i] = false, false
			cur[i][k], cur[k][i], cur[j][k], cur[k][j] = true, true, true, true
		case 1: // isolated vertex
			cur = grow(cur)
		case 2: // pendant vertex
			i := rt.Concrete(rt.IntIn("i", 0, k-1))
			cur = grow(cur)
			cur[i][k], cur[k][i] = true, true
		}
	}
	// the derived graph as it is and under three relabellings (reverse, rotate, both), dense
	// and sparse: eight calls inside the path
	k := len(cur)
	rev, rot := make([]int, k), make([]int, k)
	for v := 0; v < k; v++ {
		rev[v] = k - 1 - v
		rot[v] = (v + 1) % k
	}
	variants := [][][]bool{cur, vgRelabel(cur, rev), vgRelabel(cur, rot), vgRelabel(vgRelabel(cur, rot), rev)}
	for _, a := range variants {
		for rep := 0; rep < 2; rep++ {
			var g Graph
			if rep == 0 {
				g = vgDense(a)
			} else {
				g = vgSparse(a)
			}
			got, ok := c11Call(g, "derived graph")
			if !ok {
				return
			}
			if got != want {
				rt.Fail("IsPlanar of a derived graph differs from the planarity of its base graph")
				return
			}
		}
	}
	rt.Reach("end")
}

func H_c11_closure_q() { c11Closure(5, 2, 8, 11) }
func H_c11_closure_t() { c11Closure(6, 1, 8, 11) }

// c11TwoBlocks: two dense blocks on 5 vertices (every labelled graph with >= minM edges)
// glued at one symbolic vertex each (9 vertices, two large biconnected components), in
// either label order: planar iff both blocks are planar; no panic.
func c11TwoBlocks(minM int) {
	pick := func(name string) [][]bool {
		adj := vgAdj(5, vgBits(5))
		m := 0
		for i := 0; i < 5; i++ {
			for j := i + 1; j < 5; j++ {
				if adj[i][j] {
					m++
				}
			}
		}
		rt.Assume(m >= minM)
		return adj
	}
	a, b := pick("a"), pick("b")
	ga := rt.Choice("glueA", 5)
	gb := rt.Choice("glueB", 5)
	n := 9
	adj := make([][]bool, n)
	for i := range adj {
		adj[i] = make([]bool, n)
	}
	// block A on 0..4; block B on 5..8 plus the glue vertex ga
	mapB := func(v int) int {
		if v == gb {
			return ga
		}
		if v > gb {
			return 4 + v
		}
		return 5 + v
	}
	for i := 0; i < 5; i++ {
		for j := 0; j < 5; j++ {
			if a[i][j] {
				adj[i][j] = true
			}
			if b[i][j] {
				adj[mapB(i)][mapB(j)] = true
			}
		}
	}
	if rt.Choice("reverse", 2) == 1 {
		p := make([]int, n)
		for v := range p {
			p[v] = n - 1 - v
		}
		adj = vgRelabel(adj, p)
	}
	want := c11PlanarSmall(a) && c11PlanarSmall(b)
	var g Graph
	if rt.Choice("rep", 2) == 0 {
		g = vgDense(adj)
	} else {
		g = vgSparse(adj)
	}
	got, ok := c11Call(g, "two blocks")
	if ok {
		rt.Check(got == want, "IsPlanar of two blocks sharing a vertex differs from the planarity of the blocks")
	}
	rt.Reach("end")
}

func H_c11_twoblocks_q() { c11TwoBlocks(9) }
func H_c11_twoblocks_t() { c11TwoBlocks(8) }

// vgPermAll draws a permutation of 0..n-1 by a Lehmer code: exactly n! paths, none dropped.
func vgPermAll(name string, n int) []int {
	rest := make([]int, n)
	for i := range rest {
		rest[i] = i
	}
	p := make([]int, n)
	for k := 0; k < n; k++ {
		c := rt.Choice(name, len(rest))
		p[k] = rest[c]
		rest = append(rest[:c], rest[c+1:]...)
	}
	return p
}

// c11Kuratowski: subdivisions of K5 / K3,3 (and the same with one edge removed first, which
// are planar) under EVERY relabelling: the answer must be the known one and IsPlanar must not panic.
// quick=true: only the non-planar bases and (K5 and K3,3 being edge-transitive) only the first edge
// is subdivided in the first step; every relabelling is still covered.
func c11Kuratowski(subdiv int, quick bool) {
	var adj [][]bool
	base := rt.Choice("base", 2)
	if base == 0 { // K5
		adj = make([][]bool, 5)
		for i := range adj {
			adj[i] = make([]bool, 5)
			for j := range adj[i] {
				adj[i][j] = i != j
			}
		}
	} else { // K3,3 on {0,1,2} | {3,4,5}
		adj = make([][]bool, 6)
		for i := range adj {
			adj[i] = make([]bool, 6)
			for j := range adj[i] {
				adj[i][j] = (i < 3) != (j < 3)
			}
		}
	}
	planar := false
	if !quick && rt.Choice("removeEdge", 2) == 1 {
		// all edges are equivalent in K5 and in K3,3: removing one gives a planar graph
		a, b := 0, len(adj)-1
		adj[a][b], adj[b][a] = false, false
		planar = true
	}
	grow := func(a [][]bool) [][]bool {
		k := len(a)
		out := make([][]bool, k+1)
		for i := range out {
			out[i] = make([]bool, k+1)
			if i < k {
				copy(out[i], a[i])
			}
		}
		return out
	}
	for s := 0; s < subdiv; s++ {
		k := len(adj)
		// subdivide a symbolic edge
		var es [][2]int
		for i := 0; i < k; i++ {
			for j := i + 1; j < k; j++ {
				if adj[i][j] {
					es = append(es, [2]int{i, j})
				}
			}
		}
		e := es[0]
		if !(quick && s == 0) {
			e = es[rt.Choice("edge", len(es))]
		}
		adj = grow(adj)
		adj[e[0]][e[1]], adj[e[1]][e[0]] = false, false
		adj[e[0]][k], adj[k][e[0]], adj[e[1]][k], adj[k][e[1]] = true, true, true, true
	}
	n := len(adj)
	p := vgPermAll("perm", n)
	got, ok := c11Call(vgDense(vgRelabel(adj, p)), "Kuratowski subdivision")
	if ok {
		rt.Check(got == planar, "IsPlanar wrong on a relabelled subdivision of K5 / K3,3 (or of K5-e / K3,3-e)")
	}
	rt.Reach("end")
}

func H_c11_kuratowski_q() { c11Kuratowski(1, true) }
func H_c11_kuratowski_t() { c11Kuratowski(1, false) }

// c11Triangulation: every spanning subgraph of a maximal planar graph on 7 vertices (a
// triangulation: 15 = 3n-6 edges, built by stacking vertices into faces of a triangle) is
// planar; adding any one of its 6 non-edges makes it non-planar.  Under a relabelling generator.
func c11Triangulation() {
	n := 7
	adj := make([][]bool, n)
	for i := range adj {
		adj[i] = make([]bool, n)
	}
	add := func(a, b int) { adj[a][b], adj[b][a] = true, true }
	// triangle 0,1,2; 3 inside (0,1,2); 4 inside (0,1,3); 5 inside (1,2,3); 6 inside (0,2,3)
	add(0, 1)
	add(1, 2)
	add(0, 2)
	for _, f := range [][4]int{{3, 0, 1, 2}, {4, 0, 1, 3}, {5, 1, 2, 3}, {6, 0, 2, 3}} {
		add(f[0], f[1])
		add(f[0], f[2])
		add(f[0], f[3])
	}
	mode := rt.Choice("mode", 2)
	want := true
	if mode == 0 {
		// drop a symbolic subset of the 15 edges
		for i := 0; i < n; i++ {
			for j := i + 1; j < n; j++ {
				if adj[i][j] && rt.ConcreteBool(rt.Bool("drop")) {
					adj[i][j], adj[j][i] = false, false
				}
			}
		}
	} else {
		// add one non-edge: more than 3n-6 edges in one block
		var ne [][2]int
		for i := 0; i < n; i++ {
			for j := i + 1; j < n; j++ {
				if !adj[i][j] {
					ne = append(ne, [2]int{i, j})
				}
			}
		}
		e := ne[rt.Choice("extra", len(ne))]
		add(e[0], e[1])
		want = false
	}
	taus := append([][]int{nil}, c09Taus(n)...)
	tau := taus[rt.Choice("tau", len(taus))]
	a := adj
	if tau != nil {
		a = vgRelabel(adj, tau)
	}
	got, ok := c11Call(vgDense(a), "triangulation family")
	if ok {
		rt.Check(got == want, "IsPlanar wrong on a subgraph / one-edge extension of a triangulation on 7 vertices")
	}
	rt.Reach("end")
}

func H_c11_triang7_t() { c11Triangulation() }
