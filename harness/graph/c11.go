package graph

import (
	rt "github.com/Tom-Johnston/mamba/zzverifrt"
)

// c11PlanarSmall: Kuratowski oracle for n <= 6.
func c11PlanarSmall(adj [][]bool) bool {
	n := len(adj)
	if n < 5 {
		return true
	}
	// K5 on 5 vertices, possibly with one edge {u,v} replaced by a path u-w-v (n = 6)
	for mask := 0; mask < 1<<uint(n); mask++ {
		if c10Pop(mask) != 5 {
			continue
		}
		var vs []int
		for v := 0; v < n; v++ {
			if mask>>uint(v)&1 == 1 {
				vs = append(vs, v)
			}
		}
		missing := 0
		mu, mv := -1, -1
		for a := 0; a < 5; a++ {
			for b := a + 1; b < 5; b++ {
				if !adj[vs[a]][vs[b]] {
					missing++
					mu, mv = vs[a], vs[b]
				}
			}
		}
		if missing == 0 {
			return false
		}
		if missing == 1 {
			for w := 0; w < n; w++ {
				if mask>>uint(w)&1 == 0 && adj[w][mu] && adj[w][mv] {
					return false
				}
			}
		}
	}
	// K3,3 as a subgraph
	if n >= 6 {
		for mask := 0; mask < 1<<uint(n); mask++ {
			if c10Pop(mask) != 6 {
				continue
			}
			var vs []int
			for v := 0; v < n; v++ {
				if mask>>uint(v)&1 == 1 {
					vs = append(vs, v)
				}
			}
			for sub := 0; sub < 1<<6; sub++ {
				if c10Pop(sub) != 3 || sub&1 == 0 {
					continue
				}
				all := true
				for a := 0; a < 6 && all; a++ {
					for b := 0; b < 6; b++ {
						if sub>>uint(a)&1 == 1 && sub>>uint(b)&1 == 0 && !adj[vs[a]][vs[b]] {
							all = false
							break
						}
					}
				}
				if all {
					return false
				}
			}
		}
	}
	return true
}

func c11Call(g Graph, what string) (bool, bool) {
	var r bool
	p, msg := rt.Panics(func() { r = IsPlanar(g) })
	rt.Check(!p, "IsPlanar panicked ("+what+"): "+msg)
	return r, !p
}

func c11Small(N int) {
	n := rt.Choice("n", N+1)
	adj := vgAdj(n, vgBits(n))
	want := c11PlanarSmall(adj)
	reps, names := c09Reps(adj)
	for r, g := range reps {
		got, ok := c11Call(g, names[r])
		if ok {
			rt.Check(got == want, "IsPlanar differs from the Kuratowski oracle ("+names[r]+")")
		}
	}
	for _, tau := range c09Taus(n) {
		got, ok := c11Call(vgDense(vgRelabel(adj, tau)), "relabelled")
		if ok {
			rt.Check(got == want, "IsPlanar changes under relabelling")
		}
	}
	rt.Reach("end")
}

func H_c11_small_q() { c11Small(5) }
func H_c11_small_t() { c11Small(6) }

// c11Closure: planarity of graphs derived from an n<=N base graph by steps that
// preserve planarity status (subdivide an edge, add an isolated or pendant
// vertex, relabel), and by edge deletions (planar stays planar).
func c11Closure(N, steps, minM int) {
	n := 4 + rt.Choice("n", N-3)
	adj := vgAdj(n, vgBits(n))
	m := 0
	for i := range adj {
		for j := i + 1; j < n; j++ {
			if adj[i][j] {
				m++
			}
		}
	}
	rt.Assume(m >= minM)
	want := c11PlanarSmall(adj)
	cur := vgCopyAdj(adj)
	grow := func(a [][]bool) [][]bool {
		k := len(a)
		out := make([][]bool, k+1)
		for i := range out {
			out[i] = make([]bool, k+1)
			if i < k {
				copy(out[i], a[i])
			}
		}
		return out
	}
	for s := 0; s < steps; s++ {
		k := len(cur)
		switch rt.Choice("step", 5) {
		case 0: // subdivide a symbolic edge
			i := rt.Concrete(rt.IntIn("i", 0, k-2))
			j := rt.Concrete(rt.IntIn("j", i+1, k-1))
			rt.Assume(cur[i][j])
			cur = grow(cur)
			cur[i][j], cur[j][i] = false, false
			cur[i][k], cur[k][i], cur[j][k], cur[k][j] = true, true, true, true
		case 1: // isolated vertex
			cur = grow(cur)
		case 2: // pendant vertex
			i := rt.Concrete(rt.IntIn("i", 0, k-1))
			cur = grow(cur)
			cur[i][k], cur[k][i] = true, true
		case 3: // relabel: reverse the labels
			p := make([]int, k)
			for v := range p {
				p[v] = k - 1 - v
			}
			cur = vgRelabel(cur, p)
		case 4: // relabel: rotate
			p := make([]int, k)
			for v := range p {
				p[v] = (v + 1) % k
			}
			cur = vgRelabel(cur, p)
		}
	}
	var g Graph
	if rt.Choice("rep", 2) == 0 {
		g = vgDense(cur)
	} else {
		g = vgSparse(cur)
	}
	got, ok := c11Call(g, "derived graph")
	if ok {
		rt.Check(got == want, "IsPlanar of a derived graph differs from the planarity of its base graph")
	}
	rt.Reach("end")
}

func H_c11_closure_q() { c11Closure(5, 2, 8) }
func H_c11_closure_t() { c11Closure(6, 2, 11) }

// c11TwoBlocks: two dense blocks on 5 vertices (every labelled graph with >= minM edges)
// glued at one symbolic vertex each (9 vertices, two large biconnected components), in
// either label order: planar iff both blocks are planar; no panic.
func c11TwoBlocks(minM int) {
	pick := func(name string) [][]bool {
		adj := vgAdj(5, vgBits(5))
		m := 0
		for i := 0; i < 5; i++ {
			for j := i + 1; j < 5; j++ {
				if adj[i][j] {
					m++
				}
			}
		}
		rt.Assume(m >= minM)
		return adj
	}
	a, b := pick("a"), pick("b")
	ga := rt.Choice("glueA", 5)
	gb := rt.Choice("glueB", 5)
	n := 9
	adj := make([][]bool, n)
	for i := range adj {
		adj[i] = make([]bool, n)
	}
	// block A on 0..4; block B on 5..8 plus the glue vertex ga
	mapB := func(v int) int {
		if v == gb {
			return ga
		}
		if v > gb {
			return 4 + v
		}
		return 5 + v
	}
	for i := 0; i < 5; i++ {
		for j := 0; j < 5; j++ {
			if a[i][j] {
				adj[i][j] = true
			}
			if b[i][j] {
				adj[mapB(i)][mapB(j)] = true
			}
		}
	}
	if rt.Choice("reverse", 2) == 1 {
		p := make([]int, n)
		for v := range p {
			p[v] = n - 1 - v
		}
		adj = vgRelabel(adj, p)
	}
	want := c11PlanarSmall(a) && c11PlanarSmall(b)
	var g Graph
	if rt.Choice("rep", 2) == 0 {
		g = vgDense(adj)
	} else {
		g = vgSparse(adj)
	}
	got, ok := c11Call(g, "two blocks")
	if ok {
		rt.Check(got == want, "IsPlanar of two blocks sharing a vertex differs from the planarity of the blocks")
	}
	rt.Reach("end")
}

func H_c11_twoblocks_q() { c11TwoBlocks(9) }
func H_c11_twoblocks_t() { c11TwoBlocks(8) }

// vgPermAll draws a permutation of 0..n-1 by a Lehmer code: exactly n! paths, none dropped.
func vgPermAll(name string, n int) []int {
	rest := make([]int, n)
	for i := range rest {
		rest[i] = i
	}
	p := make([]int, n)
	for k := 0; k < n; k++ {
		c := rt.Choice(name, len(rest))
		p[k] = rest[c]
		rest = append(rest[:c], rest[c+1:]...)
	}
	return p
}

// c11Kuratowski: subdivisions of K5 / K3,3 (and the same with one edge removed first, which
// are planar) under EVERY relabelling: the answer must be the known one and IsPlanar must not panic.
// quick=true: only the non-planar bases and (K5 and K3,3 being edge-transitive) only the first edge
// is subdivided in the first step; every relabelling is still covered.
func c11Kuratowski(subdiv int, quick bool) {
	var adj [][]bool
	base := rt.Choice("base", 2)
	if base == 0 { // K5
		adj = make([][]bool, 5)
		for i := range adj {
			adj[i] = make([]bool, 5)
			for j := range adj[i] {
				adj[i][j] = i != j
			}
		}
	} else { // K3,3 on {0,1,2} | {3,4,5}
		adj = make([][]bool, 6)
		for i := range adj {
			adj[i] = make([]bool, 6)
			for j := range adj[i] {
				adj[i][j] = (i < 3) != (j < 3)
			}
		}
	}
	planar := false
	if !quick && rt.Choice("removeEdge", 2) == 1 {
		// all edges are equivalent in K5 and in K3,3: removing one gives a planar graph
		a, b := 0, len(adj)-1
		adj[a][b], adj[b][a] = false, false
		planar = true
	}
	grow := func(a [][]bool) [][]bool {
		k := len(a)
		out := make([][]bool, k+1)
		for i := range out {
			out[i] = make([]bool, k+1)
			if i < k {
				copy(out[i], a[i])
			}
		}
		return out
	}
	for s := 0; s < subdiv; s++ {
		k := len(adj)
		// subdivide a symbolic edge
		var es [][2]int
		for i := 0; i < k; i++ {
			for j := i + 1; j < k; j++ {
				if adj[i][j] {
					es = append(es, [2]int{i, j})
				}
			}
		}
		e := es[0]
		if !(quick && s == 0) {
			e = es[rt.Choice("edge", len(es))]
		}
		adj = grow(adj)
		adj[e[0]][e[1]], adj[e[1]][e[0]] = false, false
		adj[e[0]][k], adj[k][e[0]], adj[e[1]][k], adj[k][e[1]] = true, true, true, true
	}
	n := len(adj)
	p := vgPermAll("perm", n)
	got, ok := c11Call(vgDense(vgRelabel(adj, p)), "Kuratowski subdivision")
	if ok {
		rt.Check(got == planar, "IsPlanar wrong on a relabelled subdivision of K5 / K3,3 (or of K5-e / K3,3-e)")
	}
	rt.Reach("end")
}

func H_c11_kuratowski_q() { c11Kuratowski(1, true) }
func H_c11_kuratowski_t() { c11Kuratowski(1, false) }

// c11Triangulation: every spanning subgraph of a maximal planar graph on 7 vertices (a
// triangulation: 15 = 3n-6 edges, built by stacking vertices into faces of a triangle) is
// planar; adding any one of its 6 non-edges makes it non-planar.  Under a relabelling generator.
func c11Triangulation() {
	n := 7
	adj := make([][]bool, n)
	for i := range adj {
		adj[i] = make([]bool, n)
	}
	add := func(a, b int) { adj[a][b], adj[b][a] = true, true }
	// triangle 0,1,2; 3 inside (0,1,2); 4 inside (0,1,3); 5 inside (1,2,3); 6 inside (0,2,3)
	add(0, 1)
	add(1, 2)
	add(0, 2)
	for _, f := range [][4]int{{3, 0, 1, 2}, {4, 0, 1, 3}, {5, 1, 2, 3}, {6, 0, 2, 3}} {
		add(f[0], f[1])
		add(f[0], f[2])
		add(f[0], f[3])
	}
	mode := rt.Choice("mode", 2)
	want := true
	if mode == 0 {
		// drop a symbolic subset of the 15 edges
		for i := 0; i < n; i++ {
			for j := i + 1; j < n; j++ {
				if adj[i][j] && rt.ConcreteBool(rt.Bool("drop")) {
					adj[i][j], adj[j][i] = false, false
				}
			}
		}
	} else {
		// add one non-edge: more than 3n-6 edges in one block
		var ne [][2]int
		for i := 0; i < n; i++ {
			for j := i + 1; j < n; j++ {
				if !adj[i][j] {
					ne = append(ne, [2]int{i, j})
				}
			}
		}
		e := ne[rt.Choice("extra", len(ne))]
		add(e[0], e[1])
		want = false
	}
	taus := append([][]int{nil}, c09Taus(n)...)
	tau := taus[rt.Choice("tau", len(taus))]
	a := adj
	if tau != nil {
		a = vgRelabel(adj, tau)
	}
	got, ok := c11Call(vgDense(a), "triangulation family")
	if ok {
		rt.Check(got == want, "IsPlanar wrong on a subgraph / one-edge extension of a triangulation on 7 vertices")
	}
	rt.Reach("end")
}

func H_c11_triang7_t() { c11Triangulation() }
