package graph

import (
	"github.com/Tom-Johnston/mamba/disjoint"
	rt "github.com/Tom-Johnston/mamba/zzverifrt"
)

// c02Perms enumerates all permutations of 0..n-1.
func c02Perms(n int) [][]int {
	var out [][]int
	p := make([]int, 0, n)
	used := make([]bool, n)
	var rec func()
	rec = func() {
		if len(p) == n {
			out = append(out, append([]int{}, p...))
			return
		}
		for v := 0; v < n; v++ {
			if !used[v] {
				used[v] = true
				p = append(p, v)
				rec()
				p = p[:len(p)-1]
				used[v] = false
			}
		}
	}
	rec()
	return out
}

func c02IsAut(adj [][]bool, cls []int, s []int) bool {
	n := len(adj)
	for i := 0; i < n; i++ {
		if cls != nil && cls[s[i]] != cls[i] {
			return false
		}
		for j := i + 1; j < n; j++ {
			if adj[i][j] != adj[s[i]][s[j]] {
				return false
			}
		}
	}
	return true
}

func c02IsPerm(s []int, n int) bool {
	if len(s) != n {
		return false
	}
	seen := make([]bool, n)
	for _, v := range s {
		if v < 0 || v >= n || seen[v] {
			return false
		}
		seen[v] = true
	}
	return true
}

func c02Key(s []int) int {
	k := 0
	for _, v := range s {
		k = k*8 + v
	}
	return k
}

// c02CheckAut: (orbits, gens) describe exactly the group of (class-preserving) automorphisms of adj.
func c02CheckAut(adj [][]bool, cls []int, orbits disjoint.Set, gens [][]int, what string) {
	n := len(adj)
	if n == 0 {
		return
	}
	var aut [][]int
	for _, s := range c02Perms(n) {
		if c02IsAut(adj, cls, s) {
			aut = append(aut, s)
		}
	}
	// 1. generators are automorphisms
	for _, g := range gens {
		ok := c02IsPerm(g, n)
		rt.Check(ok, what+": a generator is not a permutation of 0..n-1")
		if !ok {
			return
		}
		rt.Check(c02IsAut(adj, cls, g), what+": a generator is not an automorphism")
	}
	// 2. the returned partition is exactly the orbit partition of Aut(g)
	rt.Check(len(orbits) == n, what+": orbit structure has the wrong size")
	if len(orbits) != n {
		return
	}
	cp := append(disjoint.Set{}, orbits...)
	rep := make([]int, n)
	for v := 0; v < n; v++ {
		rep[v] = cp.Find(v)
	}
	for u := 0; u < n; u++ {
		for v := u + 1; v < n; v++ {
			same := false
			for _, s := range aut {
				if s[u] == v {
					same = true
					break
				}
			}
			if same {
				rt.Check(rep[u] == rep[v], what+": orbit partition too fine (two vertices of one orbit are separated)")
			} else {
				rt.Check(rep[u] != rep[v], what+": orbit partition too coarse (vertices of different orbits are merged)")
			}
		}
	}
	// 3. the generators generate the whole group: closure under composition
	seen := map[int]bool{}
	id := make([]int, n)
	for i := range id {
		id[i] = i
	}
	group := [][]int{id}
	seen[c02Key(id)] = true
	for q := 0; q < len(group); q++ {
		for _, g := range gens {
			c := make([]int, n)
			for i := range c {
				c[i] = g[group[q][i]]
			}
			if !seen[c02Key(c)] {
				seen[c02Key(c)] = true
				group = append(group, c)
			}
		}
		if len(group) > len(aut) {
			break
		}
	}
	rt.Check(len(group) == len(aut), what+": the generators do not generate the whole automorphism group")
}

func c02Aut(N int) {
	n := rt.Choice("n", N+1)
	adj := vgAdj(n, vgBits(n))
	var g Graph
	if rt.Choice("rep", 2) == 0 {
		g = vgDense(adj)
	} else {
		g = vgSparse(adj)
	}
	perm, orbits, gens := CanonicalIsomorphFull(g, nil)
	rt.Check(c02IsPerm(perm, n), "CanonicalIsomorphFull: not a permutation")
	c02CheckAut(adj, nil, orbits, gens, "CanonicalIsomorphFull")
	rt.Reach("end")
}

func H_c02_aut_q() { c02Aut(5) }
func H_c02_aut_t() { c02Aut(6) }

func H_c02_autreg_t() {
	adj := c01RegularBits(8, 3, true)
	_, orbits, gens := CanonicalIsomorphFull(vgDense(adj), nil)
	c02CheckAut8(adj, orbits, gens)
	rt.Reach("end")
}

// c02CheckAut8: for n = 8 the group is computed from the generators' closure and
// the orbit claims are discharged by the solver (symbolic automorphism).
func c02CheckAut8(adj [][]bool, orbits disjoint.Set, gens [][]int) {
	n := len(adj)
	for _, g := range gens {
		ok := c02IsPerm(g, n)
		rt.Check(ok, "a generator is not a permutation")
		if !ok {
			return
		}
		rt.Check(c02IsAut(adj, nil, g), "a generator is not an automorphism")
	}
	cp := append(disjoint.Set{}, orbits...)
	rep := make([]int, n)
	for v := 0; v < n; v++ {
		rep[v] = cp.Find(v)
	}
	// symbolic automorphism sigma: every sigma in Aut(g) keeps each vertex in its class
	s := make([]int, n)
	f := true
	for i := range s {
		s[i] = rt.IntIn("sigma", 0, n-1)
	}
	for i := 0; i < n; i++ {
		for j := i + 1; j < n; j++ {
			f = rt.And(f, s[i] != s[j])
		}
	}
	for i := 0; i < n; i++ {
		for j := i + 1; j < n; j++ {
			// adjacency of (s[i], s[j]) as a formula over the concrete matrix
			img := false
			for a := 0; a < n; a++ {
				for b := 0; b < n; b++ {
					if adj[a][b] {
						img = rt.Or(img, rt.And(s[i] == a, s[j] == b))
					}
				}
			}
			f = rt.And(f, img == adj[i][j])
		}
	}
	stay := true
	for i := 0; i < n; i++ {
		for v := 0; v < n; v++ {
			if rep[v] != rep[i] {
				stay = rt.And(stay, s[i] != v)
			}
		}
	}
	rt.Check(rt.Implies(f, stay), "orbit partition too fine: an automorphism maps a vertex out of its returned class")
	// not too coarse: the generators (which are automorphisms) connect every class
	reach := disjoint.New(n)
	for _, g := range gens {
		for v := 0; v < n; v++ {
			reach.Union(v, g[v])
		}
	}
	for u := 0; u < n; u++ {
		for v := u + 1; v < n; v++ {
			if rep[u] == rep[v] {
				rt.Check(reach.Find(u) == reach.Find(v), "orbit partition too coarse: the returned generators do not connect two vertices of one class")
			}
		}
	}
}

// c02Reuse: histories of K calls through one reused storage / partition pair.
func c02Reuse(N, K int) {
	cs := NewStorage(N, N*(N-1)/2)
	op := NewOrderedPartition(N, N*(N-1)/2, nil)
	for call := 0; call < K; call++ {
		n := rt.Choice("n", N+1)
		adj := vgAdj(n, vgBits(n))
		g := vgSparse(adj)
		m := g.M()
		nb := make([][]int, n)
		for v := range nb {
			nb[v] = g.Neighbours(v)
		}
		var perm []int
		var orbits disjoint.Set
		var gens [][]int
		if n > 0 {
			op.Reset(n, m, nil)
		}
		perm, orbits, gens = CanonicalIsomorphAllocated(n, m, nb, op, cs, new(CanonicalOptions))
		fp, fo, fg := CanonicalIsomorphFull(g, nil)
		rt.Check(len(perm) == len(fp), "reused storage: permutation length differs from a fresh call")
		for i := range fp {
			if i < len(perm) {
				rt.Check(perm[i] == fp[i], "reused storage: permutation differs from a fresh call")
			}
		}
		rt.Check(len(orbits) == len(fo), "reused storage: orbits differ from a fresh call")
		if len(orbits) == len(fo) && n > 0 {
			a, b := append(disjoint.Set{}, orbits...), append(disjoint.Set{}, fo...)
			for u := 0; u < n; u++ {
				for v := u + 1; v < n; v++ {
					rt.Check((a.Find(u) == a.Find(v)) == (b.Find(u) == b.Find(v)), "reused storage: orbit partition differs from a fresh call")
				}
			}
		}
		rt.Check(len(gens) == len(fg), "reused storage: number of generators differs from a fresh call")
		if len(gens) == len(fg) {
			for k := range fg {
				rt.Check(len(gens[k]) == len(fg[k]), "reused storage: generator length differs")
				for i := range fg[k] {
					if i < len(gens[k]) {
						rt.Check(gens[k][i] == fg[k][i], "reused storage: generator differs from a fresh call")
					}
				}
			}
		}
	}
	rt.Reach("end")
}

func H_c02_reuse_q() { c02Reuse(4, 2) }
func H_c02_reuse_t() { c02Reuse(4, 3) }

// c02Classes: vertex classes (ordered partition of the vertex set into <= C classes).
func c02Classes(N, C int) {
	n := 1 + rt.Choice("n", N)
	adj := vgAdj(n, vgBits(n))
	cls := make([]int, n)
	for v := range cls {
		cls[v] = rt.Choice("class", C)
	}
	// classes in class order, members ascending; empty classes dropped
	var vc [][]int
	for c := 0; c < C; c++ {
		var members []int
		for v := 0; v < n; v++ {
			if cls[v] == c {
				members = append(members, v)
			}
		}
		if len(members) > 0 {
			vc = append(vc, members)
		}
	}
	if rt.KnownFinding("C02-vertex-classes") {
		// known finding (known_findings.json): every non-nil vertexClasses argument is
		// mishandled, so while the finding is open nothing is left to check here
		rt.Reach("end")
		return
	}
	var perm []int
	var orbits disjoint.Set
	var gens [][]int
	p, msg := rt.Panics(func() { perm, orbits, gens = CanonicalIsomorphFull(vgDense(adj), vc) })
	rt.Check(!p, "CanonicalIsomorphFull panicked with vertex classes: "+msg)
	if p {
		return
	}
	ok := c02IsPerm(perm, n)
	rt.Check(ok, "with vertex classes: result is not a permutation")
	if !ok {
		return
	}
	c02CheckAut(adj, cls, orbits, gens, "with vertex classes")
	// class-preserving relabelling invariance: tau applied to graph and classes
	canon := func(a [][]bool, pp []int) [][]bool {
		c := make([][]bool, n)
		for i := range c {
			c[i] = make([]bool, n)
			for j := range c[i] {
				c[i][j] = a[pp[i]][pp[j]]
			}
		}
		return c
	}
	base := canon(adj, perm)
	baseCls := make([]int, n)
	for i := range baseCls {
		baseCls[i] = cls[perm[i]]
	}
	for _, tau := range c09Taus(n) {
		ra := vgRelabel(adj, tau)
		rc := make([]int, n)
		for v := 0; v < n; v++ {
			rc[tau[v]] = cls[v]
		}
		var rvc [][]int
		for c := 0; c < C; c++ {
			var members []int
			for v := 0; v < n; v++ {
				if rc[v] == c {
					members = append(members, v)
				}
			}
			if len(members) > 0 {
				rvc = append(rvc, members)
			}
		}
		var p2 []int
		pn, msg := rt.Panics(func() { p2, _, _ = CanonicalIsomorphFull(vgDense(ra), rvc) })
		rt.Check(!pn, "CanonicalIsomorphFull panicked with vertex classes: "+msg)
		if pn || !c02IsPerm(p2, n) {
			rt.Check(pn || c02IsPerm(p2, n), "with vertex classes: result is not a permutation")
			return
		}
		rt.Check(vgSameAdj(base, canon(ra, p2)), "with vertex classes: canonical graph changes under a relabelling of graph and classes")
		for i := 0; i < n; i++ {
			rt.Check(rc[p2[i]] == baseCls[i], "with vertex classes: canonical class assignment changes under relabelling")
		}
	}
	rt.Reach("end")
}

func H_c02_classes_q() { c02Classes(4, 2) }
func H_c02_classes_t() { c02Classes(5, 3) }

// c02Garbage: storage reuse from an ARBITRARY prior state (one inductive step): every
// element of every scratch slice of a CanonicalStorage / CanonicalOrderedPartition pair
// of capacity N is an unconstrained symbolic int and the slice lengths are whatever an
// earlier call may have left (here: full capacity); after Reset the call must return
// exactly what a fresh call returns.  A stale read makes the result depend on a garbage
// variable and the equality obligation fails.
func c02Garbage(N int) {
	M := N * (N - 1) / 2
	cs := NewStorage(N, M)
	op := NewOrderedPartition(N, M, nil)
	fill := func(s []int) []int {
		s = s[:cap(s)]
		for i := range s {
			s[i] = rt.Int("garbage")
		}
		return s
	}
	cs.path = fill(cs.path)
	cs.choices = fill(cs.choices)
	cs.currentBest = fill(cs.currentBest)
	cs.currentBestPath = fill(cs.currentBestPath)
	cs.currentBestPerm = fill(cs.currentBestPerm)
	cs.currentBestPermInv = fill(cs.currentBestPermInv)
	cs.currentBestOrbits = fill(cs.currentBestOrbits)
	cs.firstLeaf = fill(cs.firstLeaf)
	cs.firstLeafPermInv = fill(cs.firstLeafPermInv)
	cs.firstLeafOrbits = fill(cs.firstLeafOrbits)
	cs.firstLeafPath = fill(cs.firstLeafPath)
	cs.space = fill(cs.space)
	cs.nbs = fill(cs.nbs)
	cs.timesSeen = fill(cs.timesSeen)
	cs.maxCell = fill(cs.maxCell)
	cs.numberOfMax = fill(cs.numberOfMax)
	for i := range cs.dws {
		cs.dws[i] = keyValue{value: rt.Int("garbage"), key: rt.Int("garbage")}
	}
	for i := range cs.generators {
		if rt.Choice("genshape", 2) == 1 {
			cs.generators[i] = fill(make([]int, N))
		}
	}
	op.order = fill(op.order)
	op.binDividers = fill(op.binDividers)
	op.binAges = fill(op.binAges)
	op.binsToCheck = fill(op.binsToCheck)
	op.value = fill(op.value)
	op.inCell = fill(op.inCell)
	op.age = rt.Int("garbage")
	op.singletonPrefixLength = rt.Int("garbage")

	n := 1 + rt.Choice("n", N)
	adj := vgAdj(n, vgBits(n))
	g := vgSparse(adj)
	nb := make([][]int, n)
	for v := range nb {
		nb[v] = g.Neighbours(v)
	}
	op.Reset(n, g.M(), nil)
	var perm []int
	var orbits disjoint.Set
	var gens [][]int
	p, msg := rt.Panics(func() { perm, orbits, gens = CanonicalIsomorphAllocated(n, g.M(), nb, op, cs, new(CanonicalOptions)) })
	rt.Check(!p, "reuse from an arbitrary prior state panicked: "+msg)
	if p {
		return
	}
	fp, fo, fg := CanonicalIsomorphFull(g, nil)
	rt.Check(len(perm) == len(fp), "arbitrary prior state: permutation length differs")
	for i := range fp {
		if i < len(perm) {
			rt.Check(perm[i] == fp[i], "arbitrary prior state: permutation differs from a fresh call (stale scratch cell read)")
		}
	}
	rt.Check(len(orbits) == len(fo), "arbitrary prior state: orbits length differs")
	if len(orbits) == len(fo) {
		for i := range fo {
			rt.Check(orbits[i] == fo[i], "arbitrary prior state: orbit structure differs from a fresh call")
		}
	}
	rt.Check(len(gens) == len(fg), "arbitrary prior state: number of generators differs")
	if len(gens) == len(fg) {
		for k := range fg {
			rt.Check(len(gens[k]) == len(fg[k]), "arbitrary prior state: generator length differs")
			for i := range fg[k] {
				if i < len(gens[k]) {
					rt.Check(gens[k][i] == fg[k][i], "arbitrary prior state: generator differs from a fresh call")
				}
			}
		}
	}
	rt.Reach("end")
}

func H_c02_garbage_q() { c02Garbage(4) }
func H_c02_garbage_t() { c02Garbage(5) }
