package graph

import (
	"github.com/Tom-Johnston/mamba/sortints"
	rt "github.com/Tom-Johnston/mamba/zzverifrt"
)

// c05DenseState: a DenseGraph for adj whose Edges slice has `spare` bytes of
// symbolic garbage beyond its length (AddVertex reslices into them).
func c05DenseState(adj [][]bool, spare int) *DenseGraph {
	g := vgDense(adj)
	e := g.Edges
	back := make([]byte, len(e)+spare)
	copy(back, e)
	for k := len(e); k < len(back); k++ {
		back[k] = rt.Byte("garbage")
	}
	g.Edges = back[:len(e)]
	dback := make([]int, len(g.DegreeSequence)+spare)
	copy(dback, g.DegreeSequence)
	for k := len(g.DegreeSequence); k < len(dback); k++ {
		dback[k] = rt.Int("garbage")
	}
	g.DegreeSequence = dback[:len(adj)]
	return g
}

func c05SparseState(adj [][]bool, spare int) *SparseGraph {
	g := vgSparse(adj)
	for v := range g.Neighbourhoods {
		l := g.Neighbourhoods[v]
		back := make([]int, len(l)+spare)
		copy(back, l)
		for k := len(l); k < len(back); k++ {
			back[k] = rt.Int("garbage")
		}
		g.Neighbourhoods[v] = sortints.SortedInts(back[:len(l)])
	}
	return g
}

func c05Step(N int, sparse bool) {
	n := rt.Choice("n", N+1)
	adj := vgAdj(n, vgBits(n))
	spare := rt.Choice("spare", 2) * (n + 1)
	var g EditableGraph
	if sparse {
		g = c05SparseState(adj, spare)
	} else {
		g = c05DenseState(adj, spare)
	}
	what := "dense"
	if sparse {
		what = "sparse"
	}
	switch rt.Choice("op", 6) {
	case 0: // AddEdge
		rt.Assume(n >= 1)
		i := rt.Concrete(rt.IntIn("i", 0, n-1))
		j := rt.Concrete(rt.IntIn("j", 0, n-1))
		g.AddEdge(i, j)
		if i != j {
			adj[i][j], adj[j][i] = true, true
		}
		vgAgree(g, adj, what+" AddEdge")
	case 1: // RemoveEdge
		rt.Assume(n >= 1)
		i := rt.Concrete(rt.IntIn("i", 0, n-1))
		j := rt.Concrete(rt.IntIn("j", 0, n-1))
		g.RemoveEdge(i, j)
		if i != j {
			adj[i][j], adj[j][i] = false, false
		}
		vgAgree(g, adj, what+" RemoveEdge")
	case 2: // RemoveVertex
		rt.Assume(n >= 1)
		v := rt.Concrete(rt.IntIn("v", 0, n-1))
		g.RemoveVertex(v)
		keep := make([]int, 0, n-1)
		for u := 0; u < n; u++ {
			if u != v {
				keep = append(keep, u)
			}
		}
		na := make([][]bool, n-1)
		for a := range na {
			na[a] = make([]bool, n-1)
			for b := range na {
				na[a][b] = adj[keep[a]][keep[b]]
			}
		}
		vgAgree(g, na, what+" RemoveVertex")
		// the structure must remain editable: add the vertex back
		g.AddVertex(nil)
		nb := make([][]bool, n)
		for a := range nb {
			nb[a] = make([]bool, n)
			for b := range nb {
				if a < n-1 && b < n-1 {
					nb[a][b] = na[a][b]
				}
			}
		}
		vgAgree(g, nb, what+" RemoveVertex+AddVertex")
	case 3: // AddVertex
		nbrs := vgSeq("nbr", n, n)
		arg := append([]int{}, nbrs...)
		g.AddVertex(arg)
		na := make([][]bool, n+1)
		for a := range na {
			na[a] = make([]bool, n+1)
			for b := range na {
				if a < n && b < n {
					na[a][b] = adj[a][b]
				}
			}
		}
		for _, u := range nbrs {
			na[u][n], na[n][u] = true, true
		}
		vgAgree(g, na, what+" AddVertex")
		for k := range arg {
			rt.Check(arg[k] == nbrs[k], what+" AddVertex modified its argument")
		}
	case 4: // Copy
		c := g.Copy()
		vgAgree(c, adj, what+" Copy")
		c05Independent(g, c, adj, vgCopyAdj(adj), what+" Copy")
	case 5: // InducedSubgraph
		V := vgSeq("V", n, n)
		arg := append([]int{}, V...)
		h := g.InducedSubgraph(arg)
		ha := make([][]bool, len(V))
		for a := range ha {
			ha[a] = make([]bool, len(V))
			for b := range ha {
				ha[a][b] = adj[V[a]][V[b]]
			}
		}
		vgAgree(h, ha, what+" InducedSubgraph")
		vgAgree(g, adj, what+" InducedSubgraph (source)")
		c05Independent(g, h, adj, ha, what+" InducedSubgraph")
	}
	rt.Reach("end")
}

// c05Independent: editing one of (src, dst) leaves the other's observers unchanged.
func c05Independent(src, dst EditableGraph, sa, da [][]bool, what string) {
	if len(da) >= 2 {
		i := rt.Concrete(rt.IntIn("mi", 0, len(da)-1))
		j := rt.Concrete(rt.IntIn("mj", 0, len(da)-1))
		if i != j {
			if da[i][j] {
				dst.RemoveEdge(i, j)
			} else {
				dst.AddEdge(i, j)
			}
			da[i][j], da[j][i] = !da[i][j], !da[j][i]
		}
		vgAgree(src, sa, what+": editing the result changed the source")
		vgAgree(dst, da, what+": result after edit")
	}
	if len(sa) >= 2 {
		i := rt.Concrete(rt.IntIn("si", 0, len(sa)-1))
		j := rt.Concrete(rt.IntIn("sj", 0, len(sa)-1))
		if i != j {
			if sa[i][j] {
				src.RemoveEdge(i, j)
			} else {
				src.AddEdge(i, j)
			}
			sa[i][j], sa[j][i] = !sa[i][j], !sa[j][i]
		}
		vgAgree(dst, da, what+": editing the source changed the result")
	}
}

func H_c05_dense_q()  { c05Step(3, false) }
func H_c05_sparse_q() { c05Step(3, true) }
func H_c05_dense_t()  { c05Step(4, false) }
func H_c05_sparse_t() { c05Step(4, true) }
