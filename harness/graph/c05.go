package graph

import (
	"github.com/Tom-Johnston/mamba/sortints"
	rt "github.com/Tom-Johnston/mamba/zzverifrt"
)

// c05DenseState: a DenseGraph for adj whose Edges slice has `spare` bytes of
// symbolic garbage beyond its length (AddVertex reslices into them).
func c05DenseState(adj [][]bool, spare int) *DenseGraph {
	g := vgDense(adj)
	e := g.Edges
	back := make([]byte, len(e)+spare)
	copy(back, e)
	for k := len(e); k < len(back); k++ {
		back[k] = rt.Byte("garbage")
	}
	g.Edges = back[:len(e)]
	dback := make([]int, len(g.DegreeSequence)+spare)
	copy(dback, g.DegreeSequence)
	for k := len(g.DegreeSequence); k < len(dback); k++ {
		dback[k] = rt.Int("garbage")
	}
	g.DegreeSequence = dback[:len(adj)]
	return g
}

func c05SparseState(adj [][]bool, spare int) *SparseGraph {
	g := vgSparse(adj)
	for v := range g.Neighbourhoods {
		l := g.Neighbourhoods[v]
		back := make([]int, len(l)+spare)
		copy(back, l)
		for k := len(l); k < len(back); k++ {
			back[k] = rt.Int("garbage")
		}
		g.Neighbourhoods[v] = sortints.SortedInts(back[:len(l)])
	}
	return g
}

// c05Scribble writes garbage into all spare capacity the graph owns (between len
// and cap of its slices).  Part of the representation invariant is that this
// memory belongs to nobody else: if two neighbour lists (or a copy and its
// source) overlap in capacity, the observers checked afterwards change.
func c05Scribble(g EditableGraph) {
	switch h := g.(type) {
	case *SparseGraph:
		for v := range h.Neighbourhoods {
			nb := []int(h.Neighbourhoods[v])
			full := nb[:cap(nb)]
			for k := len(nb); k < len(full); k++ {
				full[k] = rt.Int("scribble")
			}
		}
		d := h.DegreeSequence
		fd := d[:cap(d)]
		for k := len(d); k < len(fd); k++ {
			fd[k] = rt.Int("scribble")
		}
	case *DenseGraph:
		e := h.Edges
		fe := e[:cap(e)]
		for k := len(e); k < len(fe); k++ {
			fe[k] = rt.Byte("scribble")
		}
		d := h.DegreeSequence
		fd := d[:cap(d)]
		for k := len(d); k < len(fd); k++ {
			fd[k] = rt.Int("scribble")
		}
	}
}

func c05Step(N int, sparse bool) {
	n := rt.Choice("n", N+1)
	adj := vgAdj(n, vgBits(n))
	spare := rt.Choice("spare", 2) * (n + 1)
	var g EditableGraph
	if sparse {
		g = c05SparseState(adj, spare)
	} else {
		g = c05DenseState(adj, spare)
	}
	what := "dense"
	if sparse {
		what = "sparse"
	}
	switch rt.Choice("op", 6) {
	case 0: // AddEdge
		rt.Assume(n >= 1)
		i := rt.Concrete(rt.IntIn("i", 0, n-1))
		j := rt.Concrete(rt.IntIn("j", 0, n-1))
		g.AddEdge(i, j)
		if i != j {
			adj[i][j], adj[j][i] = true, true
		}
		c05Scribble(g)
		vgAgree(g, adj, what+" AddEdge")
	case 1: // RemoveEdge
		rt.Assume(n >= 1)
		i := rt.Concrete(rt.IntIn("i", 0, n-1))
		j := rt.Concrete(rt.IntIn("j", 0, n-1))
		g.RemoveEdge(i, j)
		if i != j {
			adj[i][j], adj[j][i] = false, false
		}
		c05Scribble(g)
		vgAgree(g, adj, what+" RemoveEdge")
	case 2: // RemoveVertex
		rt.Assume(n >= 1)
		v := rt.Concrete(rt.IntIn("v", 0, n-1))
		g.RemoveVertex(v)
		keep := make([]int, 0, n-1)
		for u := 0; u < n; u++ {
			if u != v {
				keep = append(keep, u)
			}
		}
		na := make([][]bool, n-1)
		for a := range na {
			na[a] = make([]bool, n-1)
			for b := range na {
				na[a][b] = adj[keep[a]][keep[b]]
			}
		}
		c05Scribble(g)
		vgAgree(g, na, what+" RemoveVertex")
		// the structure must remain editable: add the vertex back
		g.AddVertex(nil)
		nb := make([][]bool, n)
		for a := range nb {
			nb[a] = make([]bool, n)
			for b := range nb {
				if a < n-1 && b < n-1 {
					nb[a][b] = na[a][b]
				}
			}
		}
		c05Scribble(g)
		vgAgree(g, nb, what+" RemoveVertex+AddVertex")
	case 3: // AddVertex
		nbrs := vgSeq("nbr", n, n)
		arg := append([]int{}, nbrs...)
		g.AddVertex(arg)
		na := make([][]bool, n+1)
		for a := range na {
			na[a] = make([]bool, n+1)
			for b := range na {
				if a < n && b < n {
					na[a][b] = adj[a][b]
				}
			}
		}
		for _, u := range nbrs {
			na[u][n], na[n][u] = true, true
		}
		c05Scribble(g)
		vgAgree(g, na, what+" AddVertex")
		for k := range arg {
			rt.Check(arg[k] == nbrs[k], what+" AddVertex modified its argument")
		}
	case 4: // Copy
		c := g.Copy()
		c05Scribble(c)
		vgAgree(c, adj, what+" Copy")
		vgAgree(g, adj, what+" Copy (source)")
		c05Independent(g, c, adj, vgCopyAdj(adj), what+" Copy")
	case 5: // InducedSubgraph
		V := vgSeq("V", n, n)
		arg := append([]int{}, V...)
		h := g.InducedSubgraph(arg)
		ha := make([][]bool, len(V))
		for a := range ha {
			ha[a] = make([]bool, len(V))
			for b := range ha {
				ha[a][b] = adj[V[a]][V[b]]
			}
		}
		c05Scribble(h)
		vgAgree(h, ha, what+" InducedSubgraph")
		vgAgree(g, adj, what+" InducedSubgraph (source)")
		c05Independent(g, h, adj, ha, what+" InducedSubgraph")
	}
	rt.Reach("end")
}

// c05Independent: editing one of (src, dst) leaves the other's observers unchanged.
func c05Independent(src, dst EditableGraph, sa, da [][]bool, what string) {
	if len(da) >= 2 {
		i := rt.Concrete(rt.IntIn("mi", 0, len(da)-1))
		j := rt.Concrete(rt.IntIn("mj", 0, len(da)-1))
		if i != j {
			if da[i][j] {
				dst.RemoveEdge(i, j)
			} else {
				dst.AddEdge(i, j)
			}
			da[i][j], da[j][i] = !da[i][j], !da[j][i]
		}
		vgAgree(src, sa, what+": editing the result changed the source")
		vgAgree(dst, da, what+": result after edit")
	}
	if len(sa) >= 2 {
		i := rt.Concrete(rt.IntIn("si", 0, len(sa)-1))
		j := rt.Concrete(rt.IntIn("sj", 0, len(sa)-1))
		if i != j {
			if sa[i][j] {
				src.RemoveEdge(i, j)
			} else {
				src.AddEdge(i, j)
			}
			sa[i][j], sa[j][i] = !sa[i][j], !sa[j][i]
		}
		vgAgree(dst, da, what+": editing the source changed the result")
	}
}

func H_c05_dense_q()  { c05Step(3, false) }
func H_c05_sparse_q() { c05Step(3, true) }
func H_c05_dense_t()  { c05Step(4, false) }
func H_c05_sparse_t() { c05Step(4, true) }

// c05Apply performs one symbolic edit on g (whose model is adj) and returns the new model.
func c05Apply(g EditableGraph, adj [][]bool, what string) [][]bool {
	n := len(adj)
	switch rt.Choice("edit", 4) {
	case 0:
		if n == 0 {
			return adj
		}
		i := rt.Concrete(rt.IntIn("i", 0, n-1))
		j := rt.Concrete(rt.IntIn("j", 0, n-1))
		g.AddEdge(i, j)
		if i != j {
			adj[i][j], adj[j][i] = true, true
		}
	case 1:
		if n == 0 {
			return adj
		}
		i := rt.Concrete(rt.IntIn("i", 0, n-1))
		j := rt.Concrete(rt.IntIn("j", 0, n-1))
		g.RemoveEdge(i, j)
		if i != j {
			adj[i][j], adj[j][i] = false, false
		}
	case 2:
		if n == 0 {
			return adj
		}
		v := rt.Concrete(rt.IntIn("v", 0, n-1))
		g.RemoveVertex(v)
		na := make([][]bool, 0, n-1)
		for a := 0; a < n; a++ {
			if a == v {
				continue
			}
			row := make([]bool, 0, n-1)
			for b := 0; b < n; b++ {
				if b != v {
					row = append(row, adj[a][b])
				}
			}
			na = append(na, row)
		}
		adj = na
	case 3:
		nbrs := vgSeq("nbr", n, n)
		g.AddVertex(append([]int{}, nbrs...))
		na := make([][]bool, n+1)
		for a := range na {
			na[a] = make([]bool, n+1)
			for b := range na {
				if a < n && b < n {
					na[a][b] = adj[a][b]
				}
			}
		}
		for _, u := range nbrs {
			na[u][n], na[n][u] = true, true
		}
		adj = na
	}
	c05Scribble(g)
	vgAgree(g, adj, what)
	return adj
}

// c05Hist: Copy / InducedSubgraph followed by K symbolic edits of the result, then
// one edit of the source; both must keep agreeing with their own models.
func c05Hist(N, K int, sparse bool) {
	n := rt.Choice("n", N+1)
	adj := vgAdj(n, vgBits(n))
	var g EditableGraph
	if sparse {
		g = vgSparse(adj)
	} else {
		g = vgDense(adj)
	}
	var h EditableGraph
	var ha [][]bool
	if rt.Choice("derive", 2) == 0 {
		h = g.Copy()
		ha = vgCopyAdj(adj)
	} else {
		V := vgSeq("V", n, n)
		h = g.InducedSubgraph(append([]int{}, V...))
		ha = make([][]bool, len(V))
		for a := range ha {
			ha[a] = make([]bool, len(V))
			for b := range ha {
				ha[a][b] = adj[V[a]][V[b]]
			}
		}
	}
	for k := 0; k < K; k++ {
		ha = c05Apply(h, ha, "edit of a derived graph")
		vgAgree(g, adj, "editing a derived graph changed its source")
	}
	adj = c05Apply(g, adj, "edit of the source")
	vgAgree(h, ha, "editing the source changed a derived graph")
	rt.Reach("end")
}

func H_c05_hist_dense_q()  { c05Hist(2, 2, false) }
func H_c05_hist_sparse_q() { c05Hist(2, 2, true) }
func H_c05_hist_dense_t()  { c05Hist(3, 1, false) }
func H_c05_hist_sparse_t() { c05Hist(3, 1, true) }

// c05DenseSym: ONE edit from EVERY DenseGraph on n vertices at once: the n(n-1)/2 edge
// bytes stay symbolic (0/1), the cached degrees and edge count are the matching sums, the
// edit's arguments are concrete (one path per argument tuple) and every observer of the
// result is compared, as a formula over the edge bits, with the edited model.  Guarded
// merging keeps the edge-dependent branches of the library inside one path.
func c05DenseSym(n int) {
	bit := make([][]byte, n) // bit[i][j] (i != j) is the symbolic 0/1 edge byte
	for i := range bit {
		bit[i] = make([]byte, n)
	}
	edges := make([]byte, n*(n-1)/2)
	for j := 1; j < n; j++ {
		for i := 0; i < j; i++ {
			b := rt.Bit("e")
			edges[j*(j-1)/2+i] = b
			bit[i][j], bit[j][i] = b, b
		}
	}
	deg := make([]int, n)
	m := 0
	for i := 0; i < n; i++ {
		for j := 0; j < n; j++ {
			if i != j {
				deg[i] += int(bit[i][j])
				if i < j {
					m += int(bit[i][j])
				}
			}
		}
	}
	g := &DenseGraph{NumberOfVertices: n, NumberOfEdges: m, DegreeSequence: deg, Edges: edges}
	// the model after the edit: want[i][j] as 0/1 bytes over nn vertices
	nn := n
	want := make([][]int, n+1)
	for i := range want {
		want[i] = make([]int, n+1)
	}
	for i := 0; i < n; i++ {
		for j := 0; j < n; j++ {
			want[i][j] = int(bit[i][j])
		}
	}
	what := ""
	switch rt.Choice("op", 6) {
	case 0:
		i, j := rt.Choice("i", n), rt.Choice("j", n)
		what = "AddEdge"
		g.AddEdge(i, j)
		if i != j {
			want[i][j], want[j][i] = 1, 1
		}
	case 1:
		i, j := rt.Choice("i", n), rt.Choice("j", n)
		what = "RemoveEdge"
		g.RemoveEdge(i, j)
		if i != j {
			want[i][j], want[j][i] = 0, 0
		}
	case 2:
		v := rt.Choice("v", n)
		what = "RemoveVertex"
		g.RemoveVertex(v)
		nn = n - 1
		for i := 0; i < n; i++ {
			for j := 0; j < n; j++ {
				if i == v || j == v {
					continue
				}
				a, b := i, j
				if a > v {
					a--
				}
				if b > v {
					b--
				}
				want[a][b] = int(bit[i][j])
			}
		}
		for i := 0; i < nn; i++ {
			want[i][i] = 0
		}
	case 4:
		// Copy, then the source is edited: the copy keeps the old graph, the source gets the edit
		what = "Copy"
		c := g.Copy().(*DenseGraph)
		g.AddEdge(0, n-1)
		g.RemoveEdge(1, 2)
		c05CheckDenseModel(c, want, n, "dense Copy (symbolic state), after the source was edited")
		want[0][n-1], want[n-1][0] = 1, 1
		want[1][2], want[2][1] = 0, 0
	case 5:
		// InducedSubgraph (method) / ComplementDense on a list of vertex sequences
		var V []int
		switch rt.Choice("V", 5) {
		case 0:
			for v := n - 1; v >= 0; v-- {
				V = append(V, v)
			}
		case 1:
			for v := 0; v < n; v++ {
				V = append(V, (v+3)%n)
			}
		case 2:
			V = []int{n - 1, 0, n / 2, 2}
		case 3:
			V = []int{1}
		default:
			V = []int{}
		}
		var h *DenseGraph
		flip := false
		if rt.Choice("complement", 2) == 1 {
			what = "ComplementDense of InducedSubgraph"
			h = ComplementDense(g.InducedSubgraph(append([]int{}, V...)))
			flip = true
		} else {
			what = "InducedSubgraph"
			h = g.InducedSubgraph(append([]int{}, V...)).(*DenseGraph)
		}
		hw := make([][]int, len(V)+1)
		for i := range hw {
			hw[i] = make([]int, len(V)+1)
		}
		for i := range V {
			for j := range V {
				if i != j {
					hw[i][j] = int(bit[V[i]][V[j]])
				}
			}
		}
		c05CheckDenseModelX(h, hw, len(V), flip, "dense "+what+" (symbolic state)")
		// the source is untouched
	default:
		lists := [][]int{{}, {0}, {n - 1}, {n / 2, 1}, {n - 1, 0, n / 2}}
		all := make([]int, n)
		for i := range all {
			all[i] = n - 1 - i
		}
		lists = append(lists, all)
		nb := lists[rt.Choice("neighbours", len(lists))]
		what = "AddVertex"
		g.AddVertex(append([]int{}, nb...))
		nn = n + 1
		for _, u := range nb {
			want[u][n], want[n][u] = 1, 1
		}
	}
	c05CheckDenseModel(g, want, nn, "dense "+what+" (symbolic state)")
	rt.Reach("end")
}

// c05CheckDenseModel: N, M, Degrees, Edges length and IsEdge (both orders) of g agree, as
// formulas, with the 0/1 model want on nn vertices.
func c05CheckDenseModel(g *DenseGraph, want [][]int, nn int, what string) {
	c05CheckDenseModelX(g, want, nn, false, what)
}

// With compl the graph must be the complement of the model: IsEdge == (want == 0), degree
// == (nn-1) - model degree, M == nn(nn-1)/2 - model size (sums kept in the shape the solver
// decides by normalisation rather than by adder equivalence).
func c05CheckDenseModelX(g *DenseGraph, want [][]int, nn int, compl bool, what string) {
	rt.Check(g.N() == nn, what+": N() wrong")
	if g.N() != nn {
		return
	}
	wm := 0
	degs := g.Degrees()
	rt.Check(len(degs) == nn, what+": Degrees() has the wrong length")
	rt.Check(len(g.Edges) == nn*(nn-1)/2, what+": Edges has the wrong length")
	if len(degs) != nn || len(g.Edges) != nn*(nn-1)/2 {
		return
	}
	for i := 0; i < nn; i++ {
		wd := 0
		for j := 0; j < nn; j++ {
			if i == j {
				continue
			}
			wd += want[i][j]
			if i < j {
				wm += want[i][j]
				rt.Check(g.IsEdge(i, j) == ((want[i][j] > 0) != compl), what+": IsEdge differs from the model")
				rt.Check(g.IsEdge(j, i) == ((want[i][j] > 0) != compl), what+": IsEdge is not symmetric")
			}
		}
		if compl {
			wd = (nn - 1) - wd
		}
		rt.Check(degs[i] == wd, what+": Degrees() differs from adjacency")
	}
	if compl {
		wm = nn*(nn-1)/2 - wm
	}
	rt.Check(g.M() == wm, what+": M() differs from the number of edges")
}

func H_c05_densesym_q() { c05DenseSym(12) }
func H_c05_densesym_t() { c05DenseSym(24) }
