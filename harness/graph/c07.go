package graph

import (
	rt "github.com/Tom-Johnston/mamba/zzverifrt"
)

// ---- reference encoders written from formats.txt

// refN is the size header N(n).
func refN(n int) []byte {
	if n <= 62 {
		return []byte{byte(n + 63)}
	}
	if n <= 258047 {
		return []byte{126, byte((n>>12)&63) + 63, byte((n>>6)&63) + 63, byte(n&63) + 63}
	}
	return []byte{126, 126, byte((n>>30)&63) + 63, byte((n>>24)&63) + 63, byte((n>>18)&63) + 63, byte((n>>12)&63) + 63, byte((n>>6)&63) + 63, byte(n&63) + 63}
}

func refPack(bits []byte) []byte {
	var out []byte
	for i := 0; i < len(bits); i += 6 {
		var b byte
		for j := 0; j < 6; j++ {
			b <<= 1
			if i+j < len(bits) {
				b |= bits[i+j]
			}
		}
		out = append(out, b+63)
	}
	return out
}

func refGraph6(adj [][]bool) []byte {
	n := len(adj)
	var bits []byte
	for j := 1; j < n; j++ {
		for i := 0; i < j; i++ {
			if adj[i][j] {
				bits = append(bits, 1)
			} else {
				bits = append(bits, 0)
			}
		}
	}
	return append(refN(n), refPack(bits)...)
}

func refBitsOf(x, k int) []byte {
	out := make([]byte, k)
	for j := 0; j < k; j++ {
		out[j] = byte((x >> uint(k-1-j)) & 1)
	}
	return out
}

// refSparse6: the (b,x) stream as written by nauty's ntos6 for ascending
// neighbour lists, padded by the two rules of formats.txt.
func refSparse6(adj [][]bool) []byte {
	n := len(adj)
	out := append([]byte{':'}, refN(n)...)
	if n <= 1 {
		return out
	}
	k := 0
	for (1 << uint(k)) < n { // bits needed to represent n-1
		k++
	}
	var bits []byte
	last := 0
	for j := 0; j < n; j++ {
		for i := 0; i <= j; i++ {
			if !adj[i][j] {
				continue
			}
			if j == last {
				bits = append(bits, 0)
			} else {
				bits = append(bits, 1)
				if j > last+1 {
					bits = append(bits, refBitsOf(j, k)...)
					bits = append(bits, 0)
				}
				last = j
			}
			bits = append(bits, refBitsOf(i, k)...)
		}
	}
	pad := (6 - len(bits)%6) % 6
	if pad > 0 {
		deg := func(v int) int {
			d := 0
			for u := 0; u < n; u++ {
				if adj[v][u] {
					d++
				}
			}
			return d
		}
		special := (n == 2 && k == 1) || (n == 4 && k == 2) || (n == 8 && k == 3) || (n == 16 && k == 4)
		if special && deg(n-2) > 0 && deg(n-1) == 0 && pad >= k+1 {
			bits = append(bits, 0)
			pad--
		}
		for ; pad > 0; pad-- {
			bits = append(bits, 1)
		}
	}
	return append(out, refPack(bits)...)
}

func c07SameBytes(got string, want []byte, what string) {
	rt.Check(len(got) == len(want), what+": encoding has the wrong length")
	if len(got) != len(want) {
		return
	}
	for i := range want {
		rt.Check(got[i] == want[i], what+": encoding differs from the format definition")
	}
}

func c07Alphabet(s string, from int, what string) {
	for i := from; i < len(s); i++ {
		rt.Check(s[i] >= 63 && s[i] <= 126, what+": byte outside 63..126")
	}
}

// ---- graph6 and sparse6 on all labelled graphs of a small order

func c07Codec(N int) {
	n := rt.Choice("n", N+1)
	adj := vgAdj(n, vgBits(n))
	var g Graph
	if rt.Choice("rep", 2) == 0 {
		g = vgDense(adj)
	} else {
		g = vgSparse(adj)
	}
	// graph6
	s := Graph6Encode(g)
	c07Alphabet(s, 0, "graph6")
	c07SameBytes(s, refGraph6(adj), "graph6")
	for _, hdr := range []string{"", ">>graph6<<"} {
		d, err := Graph6Decode(hdr + s)
		rt.Check(err == nil, "Graph6Decode rejects Graph6Encode output")
		if err == nil {
			vgAgree(d, adj, "graph6 round trip")
		}
	}
	// sparse6
	t := Sparse6Encode(g)
	rt.Check(len(t) >= 1 && t[0] == ':', "sparse6 does not start with ':'")
	c07Alphabet(t, 1, "sparse6")
	c07SameBytes(t, refSparse6(adj), "sparse6")
	for _, hdr := range []string{"", ">>sparse6<<"} {
		var d *SparseGraph
		var err error
		p, msg := rt.Panics(func() { d, err = Sparse6Decode(hdr + t) })
		rt.Check(!p, "Sparse6Decode panics on Sparse6Encode output: "+msg)
		if p {
			return
		}
		rt.Check(err == nil, "Sparse6Decode rejects Sparse6Encode output")
		if err == nil {
			vgAgree(d, adj, "sparse6 round trip")
		}
	}
	rt.Reach("end")
}

func H_c07_codec_q() { c07Codec(4) }
func H_c07_codec_t() { c07Codec(6) }

// c07S6Big: sparse6 at orders where k changes and where the stream can end on a
// 6-bit boundary; edges confined to a symbolic-positioned set of <= 3 vertices.
func c07S6Big() {
	ns := []int{15, 16, 17, 31, 32, 33, 63, 64}
	n := ns[rt.Choice("n", len(ns))]
	adj := make([][]bool, n)
	for i := range adj {
		adj[i] = make([]bool, n)
	}
	cand := []int{0, 1, n / 2, n - 3, n - 2, n - 1}
	a := cand[rt.Choice("a", len(cand))]
	b := cand[rt.Choice("b", len(cand))]
	c := cand[rt.Choice("c", len(cand))]
	rt.Assume(a < b && b < c)
	if rt.ConcreteBool(rt.Bool("ab")) {
		adj[a][b], adj[b][a] = true, true
	}
	if rt.ConcreteBool(rt.Bool("ac")) {
		adj[a][c], adj[c][a] = true, true
	}
	if rt.ConcreteBool(rt.Bool("bc")) {
		adj[b][c], adj[c][b] = true, true
	}
	g := vgSparse(adj)
	t := Sparse6Encode(g)
	c07Alphabet(t, 1, "sparse6")
	c07SameBytes(t, refSparse6(adj), "sparse6 (large order)")
	var d *SparseGraph
	var err error
	p, msg := rt.Panics(func() { d, err = Sparse6Decode(t) })
	rt.Check(!p, "Sparse6Decode panics on Sparse6Encode output: "+msg)
	if p {
		return
	}
	rt.Check(err == nil, "Sparse6Decode rejects Sparse6Encode output")
	if err == nil {
		vgAgree(d, adj, "sparse6 round trip (large order)")
	}
	s := Graph6Encode(g)
	c07SameBytes(s, refGraph6(adj), "graph6 (large order)")
	dd, err := Graph6Decode(s)
	rt.Check(err == nil, "Graph6Decode rejects Graph6Encode output (large order)")
	if err == nil {
		vgAgree(dd, adj, "graph6 round trip (large order)")
	}
	rt.Reach("end")
}

func H_c07_s6big() { c07S6Big() }

// ---- Multicode

func c07Multicode(N int) {
	r := 1 + rt.Choice("records", 2)
	var stream []byte
	var adjs [][][]bool
	for q := 0; q < r; q++ {
		n := rt.Choice("n", N+1)
		adj := vgAdj(n, vgBits(n))
		adjs = append(adjs, adj)
		enc := MulticodeEncode(vgDense(adj))
		if q == 0 && r == 1 {
			var d *DenseGraph
			p, msg := rt.Panics(func() { d = MulticodeDecode(enc) })
			rt.Check(!p, "MulticodeDecode panics on MulticodeEncode output: "+msg)
			if p {
				return
			}
			vgAgree(d, adj, "Multicode round trip")
		}
		stream = append(stream, enc...)
	}
	var gs []*DenseGraph
	p, msg := rt.Panics(func() { gs = MulticodeDecodeMultiple(stream) })
	rt.Check(!p, "MulticodeDecodeMultiple panics on concatenated records: "+msg)
	if p {
		return
	}
	rt.Check(len(gs) == r, "MulticodeDecodeMultiple: wrong number of graphs")
	if len(gs) == r {
		for q := range gs {
			vgAgree(gs[q], adjs[q], "MulticodeDecodeMultiple")
		}
	}
	rt.Reach("end")
}

func H_c07_multicode_q() { c07Multicode(3) }
func H_c07_multicode_t() { c07Multicode(4) }

// ---- Pruefer

func c07IsTree(adj [][]bool) bool {
	n := len(adj)
	m := 0
	for i := 0; i < n; i++ {
		for j := i + 1; j < n; j++ {
			if adj[i][j] {
				m++
			}
		}
	}
	if m != n-1 {
		return false
	}
	seen := make([]bool, n)
	stack := []int{0}
	seen[0] = true
	cnt := 1
	for len(stack) > 0 {
		v := stack[len(stack)-1]
		stack = stack[:len(stack)-1]
		for u := 0; u < n; u++ {
			if adj[v][u] && !seen[u] {
				seen[u] = true
				cnt++
				stack = append(stack, u)
			}
		}
	}
	return cnt == n
}

func c07Prufer(N int) {
	n := 2 + rt.Choice("n", N-1)
	if rt.Choice("dir", 2) == 0 {
		// code -> tree -> code
		p := make([]int, n-2)
		for i := range p {
			p[i] = rt.Concrete(rt.IntIn("p", 0, n-1))
		}
		t := PruferDecode(append([]int{}, p...))
		adj := vgAdjOf(t)
		rt.Check(t.N() == n, "PruferDecode: wrong order")
		rt.Check(c07IsTree(adj), "PruferDecode: result is not a tree")
		vgAgree(t, adj, "PruferDecode")
		var q []int
		pn, msg := rt.Panics(func() { q = PruferEncode(t) })
		rt.Check(!pn, "PruferEncode panics on PruferDecode output: "+msg)
		if pn {
			return
		}
		rt.Check(len(q) == len(p), "PruferEncode(PruferDecode(p)) has the wrong length")
		if len(q) == len(p) {
			for i := range p {
				rt.Check(q[i] == p[i], "PruferEncode(PruferDecode(p)) != p")
			}
		}
	} else {
		// tree -> code -> tree, over all labelled trees
		adj := vgAdj(n, vgBits(n))
		rt.Assume(c07IsTree(adj))
		code := PruferEncode(vgDense(adj))
		rt.Check(len(code) == n-2, "PruferEncode: wrong length")
		for _, v := range code {
			rt.Check(v >= 0 && v < n, "PruferEncode: entry out of range")
		}
		t := PruferDecode(code)
		rt.Check(vgSameAdj(vgAdjOf(t), adj), "PruferDecode(PruferEncode(t)) != t")
		sc := PruferEncode(vgSparse(adj))
		rt.Check(len(sc) == len(code), "PruferEncode differs between representations")
		for i := range code {
			if i < len(sc) {
				rt.Check(sc[i] == code[i], "PruferEncode differs between representations")
			}
		}
	}
	rt.Reach("end")
}

func H_c07_prufer_q() { c07Prufer(5) }
func H_c07_prufer_t() { c07Prufer(6) }

// c07PruferCodes: code -> tree -> code for every code in [0,n)^(n-2), n in lo..hi.
// Encode(Decode(p)) == p for all n^(n-2) codes makes Decode injective into the labelled
// trees, of which there are n^(n-2) (Cayley), so it also gives Decode(Encode(t)) == t.
func c07PruferCodes(lo, hi int) {
	n := lo + rt.Choice("n", hi-lo+1)
	p := make([]int, n-2)
	for i := range p {
		p[i] = rt.Choice("p", n)
	}
	t := PruferDecode(append([]int{}, p...))
	adj := vgAdjOf(t)
	rt.Check(t.N() == n, "PruferDecode: wrong order")
	rt.Check(c07IsTree(adj), "PruferDecode: result is not a tree")
	var q []int
	pn, msg := rt.Panics(func() { q = PruferEncode(t) })
	rt.Check(!pn, "PruferEncode panics on PruferDecode output: "+msg)
	if pn {
		return
	}
	rt.Check(len(q) == len(p), "PruferEncode(PruferDecode(p)) has the wrong length")
	if len(q) == len(p) {
		for i := range p {
			rt.Check(q[i] == p[i], "PruferEncode(PruferDecode(p)) != p")
		}
	}
	sc := PruferEncode(vgSparse(adj))
	rt.Check(len(sc) == len(q), "PruferEncode differs between representations")
	for i := range q {
		if i < len(sc) {
			rt.Check(sc[i] == q[i], "PruferEncode differs between representations")
		}
	}
	rt.Reach("end")
}

func H_c07_prufercodes_q() { c07PruferCodes(6, 7) }
func H_c07_prufercodes_t() { c07PruferCodes(8, 8) }

// c07MulticodeBig: Multicode at orders where the 1-based byte labels get large
// (n up to 255), edges among 3 symbolic-positioned vertices.
func H_c07_multicodebig() {
	ns := []int{16, 17, 18, 19, 64, 255}
	n := ns[rt.Choice("n", len(ns))]
	adj := make([][]bool, n)
	for i := range adj {
		adj[i] = make([]bool, n)
	}
	cand := []int{0, 1, n / 2, n - 3, n - 2, n - 1}
	a := cand[rt.Choice("a", len(cand))]
	b := cand[rt.Choice("b", len(cand))]
	c := cand[rt.Choice("c", len(cand))]
	rt.Assume(a < b && b < c)
	if rt.ConcreteBool(rt.Bool("ab")) {
		adj[a][b], adj[b][a] = true, true
	}
	if rt.ConcreteBool(rt.Bool("ac")) {
		adj[a][c], adj[c][a] = true, true
	}
	if rt.ConcreteBool(rt.Bool("bc")) {
		adj[b][c], adj[c][b] = true, true
	}
	enc := MulticodeEncode(vgSparse(adj))
	var d *DenseGraph
	p, msg := rt.Panics(func() { d = MulticodeDecode(enc) })
	rt.Check(!p, "MulticodeDecode panics on MulticodeEncode output: "+msg)
	if p {
		return
	}
	// compare through the cached fields and the edge array directly (vgAgree is too slow at n = 255)
	rt.Check(d.N() == n, "Multicode round trip: wrong order")
	m := 0
	for _, pr := range [][2]int{{a, b}, {a, c}, {b, c}} {
		rt.Check(d.IsEdge(pr[0], pr[1]) == adj[pr[0]][pr[1]], "Multicode round trip: edge set differs")
		if adj[pr[0]][pr[1]] {
			m++
		}
	}
	set := 0
	for _, e := range d.Edges {
		if e > 0 {
			set++
		}
	}
	rt.Check(len(d.Edges) == n*(n-1)/2 && set == m, "Multicode round trip: spurious or missing edges")
	rt.Check(d.M() == m, "Multicode round trip: M() wrong")
	deg := d.Degrees()
	for v := 0; v < n; v++ {
		want := 0
		for u := 0; u < n; u++ {
			if adj[v][u] {
				want++
			}
		}
		rt.Check(deg[v] == want, "Multicode round trip: Degrees() wrong")
	}
	gs := MulticodeDecodeMultiple(append(append([]byte{}, enc...), enc...))
	rt.Check(len(gs) == 2, "MulticodeDecodeMultiple: wrong number of graphs")
	rt.Reach("end")
}

// c07G6Sym: graph6 with ALL edge bits symbolic at an order that needs the 4-byte size
// header (needs guarded merging: no forks on edge bits).  The expected bytes are
// stated arithmetically from formats.txt: byte t = 63 + sum over q<6 of bit[6t+q] << (5-q),
// with the bits in the order (0,1),(0,2),(1,2),(0,3),... which is also the order of Edges.
func c07G6Sym(n int) {
	ne := n * (n - 1) / 2
	e := make([]byte, ne)
	for k := range e {
		e[k] = rt.Bit("e")
	}
	deg := make([]int, n)
	g := &DenseGraph{NumberOfVertices: n, NumberOfEdges: 0, DegreeSequence: deg, Edges: e}
	s := Graph6Encode(g)
	hdr := refN(n)
	nb := (ne + 5) / 6
	rt.Check(len(s) == len(hdr)+nb, "graph6: wrong length")
	if len(s) != len(hdr)+nb {
		return
	}
	for i := range hdr {
		rt.Check(s[i] == hdr[i], "graph6: size header differs from N(n)")
	}
	for t := 0; t < nb; t++ {
		var want byte = 63
		for q := 0; q < 6; q++ {
			if 6*t+q < ne {
				want += e[6*t+q] << uint(5-q)
			}
		}
		rt.Check(s[len(hdr)+t] == want, "graph6: data byte differs from the format definition")
	}
	d, err := Graph6Decode(s)
	rt.Check(err == nil, "Graph6Decode rejects Graph6Encode output")
	if err != nil {
		return
	}
	rt.Check(d.N() == n && len(d.Edges) == ne, "graph6 round trip: wrong order")
	if len(d.Edges) != ne {
		return
	}
	for k := 0; k < ne; k++ {
		rt.Check((d.Edges[k] > 0) == (e[k] > 0), "graph6 round trip: edge differs")
	}
	// cached degrees of the decoded graph agree with the bits (vertex 0, a middle one, the last);
	// only for small orders: at n = 63 this is the equivalence of two 62-input adders, which the
	// solvers do not finish in 60 s (NewDense's counts are C06's subject)
	for _, v := range []int{0, n / 2, n - 1} {
		if n > 16 {
			break
		}
		want := 0
		for u := 0; u < n; u++ {
			if u == v {
				continue
			}
			a, b := u, v
			if a > b {
				a, b = b, a
			}
			want += int(e[b*(b-1)/2+a])
		}
		rt.Check(d.DegreeSequence[v] == want, "graph6 round trip: cached degree differs")
	}
	rt.Reach("end")
}

func H_c07_g6sym63() { c07G6Sym(63) }
func H_c07_g6sym64() { c07G6Sym(64) }
func H_c07_g6sym9()  { c07G6Sym(9) }

// c07S6Header: sparse6 at the orders where the size header changes form (1 byte up to 62,
// "~"+3 bytes up to 258047, "~~"+6 bytes above): the edgeless graph and the graph with the
// single edge {n-2, n-1}, built through the library's constructor.  The expected bytes come
// from the same reference rules as refSparse6, specialised to at most one edge.
func c07S6Header() {
	ns := []int{62, 63, 4095, 4096, 258047, 258048}
	n := ns[rt.Choice("n", len(ns))]
	withEdge := rt.Choice("edge", 2) == 1
	g := NewSparse(n, nil)
	if withEdge {
		g.AddEdge(n-2, n-1)
	}
	want := append([]byte{':'}, refN(n)...)
	if withEdge {
		k := 0
		for (1 << uint(k)) < n {
			k++
		}
		var bits []byte
		// from v = 0: (b=1, x=n-1) moves to n-1 when n-1 > 1, then (b=0, x=n-2) is the edge
		bits = append(bits, 1)
		bits = append(bits, refBitsOf(n-1, k)...)
		bits = append(bits, 0)
		bits = append(bits, refBitsOf(n-2, k)...)
		for len(bits)%6 != 0 {
			bits = append(bits, 1)
		}
		want = append(want, refPack(bits)...)
	}
	var t string
	p, msg := rt.Panics(func() { t = Sparse6Encode(g) })
	rt.Check(!p, "Sparse6Encode panicked at a header boundary: "+msg)
	if p {
		return
	}
	c07SameBytes(t, want, "sparse6 (size header boundary)")
	var d *SparseGraph
	var err error
	p, msg = rt.Panics(func() { d, err = Sparse6Decode(t) })
	rt.Check(!p, "Sparse6Decode panics on Sparse6Encode output: "+msg)
	if p {
		return
	}
	rt.Check(err == nil, "Sparse6Decode rejects Sparse6Encode output (size header boundary)")
	if err == nil {
		rt.Check(d.N() == n, "sparse6 round trip (size header boundary): wrong order")
		m := 0
		if withEdge {
			m = 1
		}
		rt.Check(d.M() == m, "sparse6 round trip (size header boundary): wrong size")
		rt.Check(d.IsEdge(n-2, n-1) == withEdge, "sparse6 round trip (size header boundary): edge lost")
	}
	rt.Reach("end")
}

func H_c07_s6header() { c07S6Header() }
