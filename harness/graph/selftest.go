package graph

import (
	rt "github.com/Tom-Johnston/mamba/zzverifrt"
)

// H_selftest_graph: differential validation of the interpreter on the repository's own
// test inputs (graph6 strings and named graphs used in graph/*_test.go): every observable
// below is recorded by the symbolic run (all inputs concrete) and recomputed by the native
// replay of the same path; any difference is an engine discrepancy.
func H_selftest_graph() {
	hash := func(xs []int) int {
		h := 17
		for _, x := range xs {
			h = h*31 + x + 7
		}
		return h
	}
	strs := []string{"DQc", "IsP@OkWHG", "KlWW[EHD_BsC", "KCOedae]SrLu", "IheA@GUAo", "G|WW}K", "GhcqSK", "Gs\\@Gk"}
	for _, s := range strs {
		g, err := Graph6Decode(s)
		rt.Check(err == nil, "selftest: test vector does not decode")
		if err != nil {
			return
		}
		rt.Digest("n", g.N())
		rt.Digest("m", g.M())
		rt.Digest("deg", hash(g.Degrees()))
		rt.Digest("canon", hash(CanonicalIsomorph(g)))
		perm, orbits, gens := CanonicalIsomorphFull(g, nil)
		rt.Digest("perm", hash(perm))
		rt.Digest("orbits", hash(orbits))
		for _, gn := range gens {
			rt.Digest("gen", hash(gn))
		}
		rt.Digest("clique", CliqueNumber(g))
		rt.Digest("indep", IndependenceNumber(g))
		chi, col := ChromaticNumber(g)
		rt.Digest("chi", chi)
		rt.Digest("col", hash(col))
		if g.N() <= 8 {
			ci, ec := ChromaticIndex(g)
			rt.Digest("chiIndex", ci)
			ecs := make([]int, len(ec))
			for i := range ec {
				ecs[i] = int(ec[i])
			}
			rt.Digest("edgecol", hash(ecs))
		}
		d, order := Degeneracy(g)
		rt.Digest("degen", d)
		rt.Digest("order", hash(order))
		rt.Digest("girth", Girth(g))
		rt.Digest("diam", Diameter(g))
		rt.Digest("radius", Radius(g))
		rt.Digest("ecc", hash(Eccentricity(g)))
		planar := 0
		if IsPlanar(g) {
			planar = 1
		}
		rt.Digest("planar", planar)
		bc, art := BiconnectedComponents(g)
		for _, b := range bc {
			rt.Digest("block", hash(b))
		}
		rt.Digest("art", hash(art))
		if g.N() <= 8 {
			rt.Digest("cycles", hash(NumberOfCycles(g)))
			rt.Digest("icycles", hash(NumberOfInducedCycles(g, -1)))
			rt.Digest("ipaths", hash(NumberOfInducedPaths(g, -1)))
			rt.Digest("chrompoly", hash(ChromaticPolynomial(g)))
		}
		s6 := Sparse6Encode(g)
		rt.Digest("s6len", len(s6))
		h := 0
		for i := 0; i < len(s6); i++ {
			h = h*131 + int(s6[i])
		}
		rt.Digest("s6", h)
		g6 := Graph6Encode(g)
		rt.Check(g6 == s, "selftest: Graph6Encode(Graph6Decode(s)) != s")
		mc := MulticodeEncode(g)
		h = 0
		for _, b := range mc {
			h = h*131 + int(b)
		}
		rt.Digest("multicode", h)
		lg := LineGraphDense(g)
		rt.Digest("linegraph", lg.M())
		sp, err := Sparse6Decode(s6)
		rt.Check(err == nil && sp.M() == g.M(), "selftest: sparse6 round trip")
		rt.Digest("spcanon", hash(CanonicalIsomorph(sp)))
	}
	for _, g := range []*DenseGraph{CompleteGraph(7), Cycle(6), Star(5), Path(6), HypercubeGraph(3), KneserGraph(5, 2), RookGraph(3, 3), FlowerSnark(3), GeneralisedPetersenGraph(5, 2), FriendshipGraph(3)} {
		rt.Digest("fam.m", g.M())
		rt.Digest("fam.girth", Girth(g))
		rt.Digest("fam.diam", Diameter(g))
		rt.Digest("fam.clique", CliqueNumber(g))
		chi, _ := ChromaticNumber(g)
		rt.Digest("fam.chi", chi)
		rt.Digest("fam.canon", hash(CanonicalIsomorph(g)))
	}
	rt.Reach("end")
}
