package graph

import (
	rt "github.com/Tom-Johnston/mamba/zzverifrt"
)

// refDeclaredN decodes the size header of a graph6/sparse6 body (after ':'),
// returning ok=false when the header is incomplete.  Bytes are assumed in 63..126.
func refDeclaredN(s string) (n int, hdr int, ok bool) {
	if len(s) == 0 {
		return 0, 0, false
	}
	if s[0] != 126 {
		return int(s[0]) - 63, 1, true
	}
	if len(s) < 2 {
		return 0, 0, false
	}
	if s[1] != 126 {
		if len(s) < 4 {
			return 0, 0, false
		}
		return (int(s[1])-63)<<12 + (int(s[2])-63)<<6 + int(s[3]) - 63, 4, true
	}
	if len(s) < 8 {
		return 0, 0, false
	}
	n = 0
	for i := 2; i < 8; i++ {
		n = n<<6 + int(s[i]) - 63
	}
	return n, 8, true
}

// c08WellFormed: g's observers are mutually consistent (adjacency read through IsEdge).
func c08WellFormed(g Graph, n int, what string) [][]bool {
	rt.Check(g.N() == n, what+": result is not on the declared number of vertices")
	if g.N() != n {
		return nil
	}
	adj := make([][]bool, n)
	for i := range adj {
		adj[i] = make([]bool, n)
	}
	for i := 0; i < n; i++ {
		for j := i + 1; j < n; j++ {
			e := rt.ConcreteBool(g.IsEdge(i, j))
			adj[i][j], adj[j][i] = e, e
		}
	}
	vgAgree(g, adj, what)
	return adj
}

func c08Graph6(L int) {
	l := rt.Choice("len", L+1)
	body := rt.String("s", l)
	s := body
	if rt.Choice("header", 2) == 1 {
		s = ">>graph6<<" + body
	}
	var g *DenseGraph
	var err error
	p, msg := rt.Panics(func() { g, err = Graph6Decode(s) })
	rt.Check(!p, "Graph6Decode panicked: "+msg)
	if p {
		return
	}
	if err == nil {
		n := 0
		if len(body) > 0 {
			var ok bool
			n, _, ok = refDeclaredN(body)
			rt.Check(ok, "Graph6Decode succeeded on an incomplete size header")
			n = rt.Concrete(n)
		}
		adj := c08WellFormed(g, n, "Graph6Decode result")
		if adj != nil {
			g2, err2 := Graph6Decode(Graph6Encode(g))
			rt.Check(err2 == nil, "re-encoded graph6 does not decode")
			if err2 == nil {
				vgAgree(g2, adj, "graph6 decode-encode-decode")
			}
		}
	}
	rt.Reach("end")
}

func H_c08_g6_q() { c08Graph6(3) }
func H_c08_g6_t() { c08Graph6(4) }

// c08Sparse6: ':' is not assumed; the whole string is symbolic.  The declared n
// is bounded (resource bound of the property) once the header is readable.
func c08Sparse6(L int, maxN int) {
	l := rt.Choice("len", L+1)
	body := rt.String("s", l)
	s := body
	if rt.Choice("header", 2) == 1 {
		s = ">>sparse6<<" + body
	}
	// resource bound: declared n <= maxN (only constrains strings whose header is readable)
	if len(body) >= 2 {
		inRange := true
		for i := 1; i < len(body); i++ {
			inRange = rt.And(inRange, rt.And(body[i] >= 63, body[i] <= 126))
		}
		if rt.ConcreteBool(rt.And(body[0] == ':', inRange)) {
			n, _, ok := refDeclaredN(body[1:])
			if ok {
				rt.Assume(n <= maxN)
			}
		}
	}
	var g *SparseGraph
	var err error
	p, msg := rt.Panics(func() { g, err = Sparse6Decode(s) })
	rt.Check(!p, "Sparse6Decode panicked: "+msg)
	if p {
		return
	}
	if err == nil {
		rt.Check(len(body) >= 2, "Sparse6Decode succeeded without ':' and a size")
		if len(body) < 2 {
			return
		}
		n, _, ok := refDeclaredN(body[1:])
		rt.Check(ok, "Sparse6Decode succeeded on an incomplete size header")
		n = rt.Concrete(n)
		adj := c08WellFormed(g, n, "Sparse6Decode result")
		if adj != nil {
			g2, err2 := Sparse6Decode(Sparse6Encode(g))
			rt.Check(err2 == nil, "re-encoded sparse6 does not decode")
			if err2 == nil {
				vgAgree(g2, adj, "sparse6 decode-encode-decode")
			}
		}
	}
	rt.Reach("end")
}

func H_c08_s6_q() { c08Sparse6(4, 8) }
func H_c08_s6_t() { c08Sparse6(5, 16) }

// c08LongHeader: the 4- and 8-byte size headers with a small declared n (non-minimal
// headers are legal input) followed by 0..D symbolic data bytes: exercises the
// length checks that depend on the header length.
func c08LongHeader(D int, sparse bool) {
	form := rt.Choice("form", 2) // 0: "~" + 3 bytes, 1: "~~" + 6 bytes
	hl := 3
	pre := "~"
	if form == 1 {
		hl = 6
		pre = "~~"
	}
	// declared n: small values (non-minimal long header) and the first values that need the long form
	ns := []int{0, 1, 2, 3, 4, 5, 63, 64}
	n := ns[rt.Choice("n", len(ns))]
	hb := make([]byte, hl)
	for i := 0; i < hl; i++ {
		hb[i] = byte(63 + (n>>uint(6*(hl-1-i)))&63)
	}
	hdr := string(hb)
	if n > 5 && !sparse {
		// graph6 needs n(n-1)/2 edge bits: with <= D data bytes this is the "too short" path
	}
	data := rt.String("d", rt.Choice("dlen", D+1))
	s := pre + hdr + data
	if sparse {
		var g *SparseGraph
		var err error
		p, msg := rt.Panics(func() { g, err = Sparse6Decode(":" + s) })
		rt.Check(!p, "Sparse6Decode panicked: "+msg)
		if !p && err == nil && n <= 5 {
			c08WellFormed(g, n, "Sparse6Decode result (long header)")
		}
		if !p && err == nil {
			rt.Check(g.N() == n, "Sparse6Decode: wrong order (long header)")
			// re-encoding the result and decoding again gives the same graph
			var enc string
			var g2 *SparseGraph
			var err2 error
			p2, msg2 := rt.Panics(func() { enc = Sparse6Encode(g); g2, err2 = Sparse6Decode(enc) })
			rt.Check(!p2, "re-encoding / decoding a decoded sparse6 graph panicked: "+msg2)
			if !p2 {
				rt.Check(err2 == nil, "Sparse6Decode rejects the re-encoding of a graph it decoded")
				if err2 == nil {
					rt.Check(g2.N() == g.N() && g2.M() == g.M(), "sparse6 decode/encode/decode changes the graph (order or size)")
					if g2.N() == g.N() {
						for v := 0; v < g.N(); v++ {
							a, b := g.Neighbours(v), g2.Neighbours(v)
							rt.Check(len(a) == len(b), "sparse6 decode/encode/decode changes the graph")
							for k := range a {
								if k < len(b) {
									rt.Check(a[k] == b[k], "sparse6 decode/encode/decode changes the graph")
								}
							}
						}
					}
				}
			}
		}
	} else {
		var g *DenseGraph
		var err error
		p, msg := rt.Panics(func() { g, err = Graph6Decode(s) })
		rt.Check(!p, "Graph6Decode panicked: "+msg)
		if !p && err == nil {
			c08WellFormed(g, n, "Graph6Decode result (long header)")
			var g2 *DenseGraph
			var err2 error
			p2, msg2 := rt.Panics(func() { g2, err2 = Graph6Decode(Graph6Encode(g)) })
			rt.Check(!p2, "re-encoding / decoding a decoded graph6 graph panicked: "+msg2)
			if !p2 {
				rt.Check(err2 == nil, "Graph6Decode rejects the re-encoding of a graph it decoded")
				if err2 == nil {
					rt.Check(g2.N() == g.N() && g2.M() == g.M(), "graph6 decode/encode/decode changes the graph (order or size)")
					if g2.N() == g.N() && len(g2.Edges) == len(g.Edges) {
						for k := range g.Edges {
							rt.Check((g.Edges[k] > 0) == (g2.Edges[k] > 0), "graph6 decode/encode/decode changes the graph")
						}
					}
				}
			}
		}
	}
	rt.Reach("end")
}

// c08Truncated: a size header that announces the 4- or 8-byte form and then stops short
// ("~" + 0..2 bytes, "~~" + 0..5 bytes, all bytes symbolic), with and without the optional
// format prefix: malformed, so an error and no panic.
func c08Truncated(sparse bool) {
	pre := "~"
	hl := 3
	if rt.Choice("form", 2) == 1 {
		pre = "~~"
		hl = 6
	}
	k := rt.Choice("k", hl)
	s := pre + rt.String("h", k)
	withPrefix := rt.Choice("prefix", 2) == 1
	if sparse {
		s = ":" + s
		if withPrefix {
			s = ">>sparse6<<" + s
		}
		var err error
		p, msg := rt.Panics(func() { _, err = Sparse6Decode(s) })
		rt.Check(!p, "Sparse6Decode panicked on a truncated size header: "+msg)
		if !p {
			rt.Check(err != nil, "Sparse6Decode accepted a truncated size header")
		}
	} else {
		if withPrefix {
			s = ">>graph6<<" + s
		}
		var err error
		p, msg := rt.Panics(func() { _, err = Graph6Decode(s) })
		rt.Check(!p, "Graph6Decode panicked on a truncated size header: "+msg)
		if !p {
			rt.Check(err != nil, "Graph6Decode accepted a truncated size header")
		}
	}
	rt.Reach("end")
}

func H_c08_truncated() { c08Truncated(rt.Choice("sparse", 2) == 1) }

func H_c08_g6long_q() { c08LongHeader(2, false) }
func H_c08_s6long_q() { c08LongHeader(1, true) }
func H_c08_g6long_t() { c08LongHeader(3, false) }
func H_c08_s6long_t() { c08LongHeader(2, true) }

// c08G6Deep: longer strings with guarded merging: the decoded edge set stays symbolic (no
// fork per edge), so the path tree is only the byte-range checks and the declared n.
// Obligations: no panic; on success N() is the declared n, M() and Degrees() equal the
// symbolic adjacency read through IsEdge, IsEdge is symmetric, and re-encoding decodes to
// the same edge set.  (Neighbours lists are checked by the short-string harness.)
func c08G6Deep(L int) {
	l := rt.Choice("len", L+1)
	s := rt.String("s", l)
	var g *DenseGraph
	var err error
	p, msg := rt.Panics(func() { g, err = Graph6Decode(s) })
	rt.Check(!p, "Graph6Decode panicked: "+msg)
	if p || err != nil {
		rt.Reach("end")
		return
	}
	// the optional ">>graph6<<" prefix is not part of the data (formats.txt)
	body := s
	const prefix = ">>graph6<<"
	if len(s) >= len(prefix) {
		is := true
		for k := 0; k < len(prefix) && is; k++ {
			if s[k] != prefix[k] {
				is = false
			}
		}
		if is {
			body = s[len(prefix):]
		}
	}
	n := 0
	if len(body) > 0 {
		var ok bool
		n, _, ok = refDeclaredN(body)
		rt.Check(ok, "Graph6Decode succeeded on an incomplete size header")
		n = rt.Concrete(n)
	}
	rt.Check(g.N() == n, "Graph6Decode: wrong order")
	if g.N() != n {
		return
	}
	m := 0
	deg := make([]int, n)
	for i := 0; i < n; i++ {
		for j := i + 1; j < n; j++ {
			e := g.IsEdge(i, j)
			rt.Check(g.IsEdge(j, i) == e, "IsEdge not symmetric")
			b := rt.B2I(e)
			m += b
			deg[i] += b
			deg[j] += b
		}
	}
	if n <= 6 {
		// for larger n this is the equivalence of two adder networks over up to 36 bits, which the
		// solvers do not decide in 30 s; M() is checked by the short-string harness
		rt.Check(g.M() == m, "Graph6Decode: M() differs from the number of edges")
	}
	d := g.Degrees()
	for v := 0; v < n && v < len(d); v++ {
		rt.Check(d[v] == deg[v], "Graph6Decode: Degrees() differ from the adjacency")
	}
	g2, err2 := Graph6Decode(Graph6Encode(g))
	rt.Check(err2 == nil, "re-encoded graph6 does not decode")
	if err2 == nil && g2.N() == n {
		for i := 0; i < n; i++ {
			for j := i + 1; j < n; j++ {
				rt.Check(g2.IsEdge(i, j) == g.IsEdge(i, j), "graph6 decode-encode-decode changes an edge")
			}
		}
	}
	rt.Reach("end")
}

func H_c08_g6deep_q() { c08G6Deep(8) }
func H_c08_g6deep_t() { c08G6Deep(14) }
