package search

import (
	rt "github.com/Tom-Johnston/mamba/zzverifrt"
)

// c19Shards: two shards of one split search, each with its own iterator, interleaved
// step by step (actor regions alternate); footprints must not interfere and the
// shards must yield what they yield alone.
func c19Shards(N int) {
	n := rt.Choice("n", N+1)
	m := 2 + rt.Choice("m", 2)
	a := rt.Choice("a", m)
	b := rt.Choice("b", m)
	rt.Assume(a < b)
	soloA, _ := s3Drain(All(n, a, m), s3Classes[n], "solo")
	soloB, _ := s3Drain(All(n, b, m), s3Classes[n], "solo")
	rt.ActorBegin(1)
	itA := All(n, a, m)
	rt.ActorEnd()
	rt.ActorBegin(2)
	itB := All(n, b, m)
	rt.ActorEnd()
	var gotA, gotB []s3Out
	doneA, doneB := false, false
	for !doneA || !doneB {
		if !doneA {
			rt.ActorBegin(1)
			if itA.Next() {
				gotA = append(gotA, s3Snapshot(itA.Value()))
			} else {
				doneA = true
			}
			rt.ActorEnd()
		}
		if !doneB {
			rt.ActorBegin(2)
			if itB.Next() {
				gotB = append(gotB, s3Snapshot(itB.Value()))
			} else {
				doneB = true
			}
			rt.ActorEnd()
		}
		if len(gotA)+len(gotB) > 2*s3Classes[n] {
			rt.Fail("shards yield too many graphs")
			return
		}
	}
	rt.FootprintCheck()
	rt.Check(len(gotA) == len(soloA) && len(gotB) == len(soloB), "interleaved shards yield a different number of graphs than alone")
	for i := range soloA {
		if i < len(gotA) {
			rt.Check(s4Same(gotA[i], soloA[i]), "interleaved shard A differs from running alone")
		}
	}
	for i := range soloB {
		if i < len(gotB) {
			rt.Check(s4Same(gotB[i], soloB[i]), "interleaved shard B differs from running alone")
		}
	}
	rt.Reach("end")
}

func H_c19_shards_q() { c19Shards(4) }
func H_c19_shards_t() { c19Shards(5) }
