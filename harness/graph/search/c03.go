package search

import (
	"bytes"

	"github.com/Tom-Johnston/mamba/graph"
	rt "github.com/Tom-Johnston/mamba/zzverifrt"
)

// A000088: number of graphs on n unlabelled nodes (trusted external table).
var s3Classes = []int{1, 1, 2, 4, 11, 34, 156, 1044, 12346}

type s3Out struct {
	n     int
	edges []byte
	m     int
	deg   []int
}

func s3Snapshot(g *graph.DenseGraph) s3Out {
	return s3Out{n: g.N(), edges: append([]byte{}, g.Edges...), m: g.M(), deg: g.Degrees()}
}

func s3Perms(n int) [][]int {
	var out [][]int
	p := make([]int, 0, n)
	used := make([]bool, n)
	var rec func()
	rec = func() {
		if len(p) == n {
			out = append(out, append([]int{}, p...))
			return
		}
		for v := 0; v < n; v++ {
			if !used[v] {
				used[v] = true
				p = append(p, v)
				rec()
				p = p[:len(p)-1]
				used[v] = false
			}
		}
	}
	rec()
	return out
}

// s3Key: canonical key of a labelled graph = minimum over all relabellings of
// its edge bit mask (computed by the harness, independent of the library's
// canonical labelling).
func s3Key(n int, edges []byte, perms [][]int) int {
	best := -1
	idx := func(i, j int) int {
		if i > j {
			i, j = j, i
		}
		return j*(j-1)/2 + i
	}
	for _, p := range perms {
		k := 0
		for j := 1; j < n; j++ {
			for i := 0; i < j; i++ {
				if edges[idx(i, j)] > 0 {
					k |= 1 << uint(idx(p[i], p[j]))
				}
			}
		}
		if best == -1 || k < best {
			best = k
		}
	}
	if best == -1 {
		return 0
	}
	return best
}

func s3WellFormed(o s3Out, n int, what string) bool {
	ok := o.n == n && len(o.edges) == n*(n-1)/2 && len(o.deg) == n
	rt.Check(ok, what+": yielded value is not a graph on n vertices")
	if !ok {
		return false
	}
	deg := make([]int, n)
	m := 0
	for j := 1; j < n; j++ {
		for i := 0; i < j; i++ {
			b := o.edges[j*(j-1)/2+i]
			rt.Check(b == 0 || b == 1, what+": edge byte not 0/1")
			if b > 0 {
				deg[i]++
				deg[j]++
				m++
			}
		}
	}
	rt.Check(o.m == m, what+": M() differs from the number of edges")
	for v := 0; v < n; v++ {
		rt.Check(o.deg[v] == deg[v], what+": Degrees() differ from the adjacency")
	}
	return true
}

func s3Drain(it *GraphIterator, limit int, what string) ([]s3Out, bool) {
	var out []s3Out
	for it.Next() {
		out = append(out, s3Snapshot(it.Value()))
		if len(out) > limit {
			rt.Fail(what + ": yields more graphs than there are isomorphism classes")
			return out, false
		}
	}
	for k := 0; k < 2; k++ {
		rt.Check(!it.Next(), what+": Next returns true after exhaustion")
	}
	return out, true
}

// c03All: for fixed n and split modulus m the shards a = 0..m-1 together yield
// every isomorphism class exactly once.
func c03All(N, M int) {
	n := rt.Choice("n", N+1)
	m := 1 + rt.Choice("m", M)
	perms := s3Perms(n)
	var all []s3Out
	for a := 0; a < m; a++ {
		outs, ok := s3Drain(All(n, a, m), s3Classes[n], "All")
		if !ok {
			return
		}
		all = append(all, outs...)
	}
	seen := map[int]bool{}
	for _, o := range all {
		if !s3WellFormed(o, n, "All") {
			return
		}
		k := s3Key(n, o.edges, perms)
		rt.Check(!seen[k], "All: two yielded graphs are isomorphic")
		seen[k] = true
	}
	rt.Check(len(all) == s3Classes[n], "All: an isomorphism class is missing (count differs from A000088)")
	if n <= 5 {
		// direct completeness: every labelled graph is isomorphic to a yielded one
		ne := n * (n - 1) / 2
		for mask := 0; mask < 1<<uint(ne); mask++ {
			e := make([]byte, ne)
			for b := 0; b < ne; b++ {
				e[b] = byte(mask >> uint(b) & 1)
			}
			rt.Check(seen[s3Key(n, e, perms)], "All: a labelled graph is not isomorphic to any yielded graph")
		}
	}
	rt.Reach("end")
}

func H_c03_all_q() { c03All(5, 3) }
func H_c03_all_t() { c03All(6, 4) }
func H_c03_all7_t() {
	n := 7
	perms := s3Perms(n)
	m := 1 + 2*rt.Choice("m", 2) // 1 or 3
	var all []s3Out
	for a := 0; a < m; a++ {
		outs, ok := s3Drain(All(n, a, m), s3Classes[n], "All")
		if !ok {
			return
		}
		all = append(all, outs...)
	}
	seen := map[int]bool{}
	for _, o := range all {
		if !s3WellFormed(o, n, "All") {
			return
		}
		k := s3Key(n, o.edges, perms)
		rt.Check(!seen[k], "All: two yielded graphs are isomorphic")
		seen[k] = true
	}
	rt.Check(len(all) == s3Classes[n], "All: an isomorphism class is missing (count differs from A000088)")
	rt.Reach("end")
}

// ---- hereditary predicates

type s3Pred struct {
	kind int // 0: contains induced F, 1: M() > e, 2: max degree > d
	f    []byte
	fn   int
	e    int
}

// rejects reports whether the predicate prunes g (g is NOT in the hereditary class).
func (p s3Pred) rejects(n int, edges []byte) bool {
	adj := func(i, j int) bool {
		if i > j {
			i, j = j, i
		}
		return edges[j*(j-1)/2+i] > 0
	}
	switch p.kind {
	case 1:
		m := 0
		for _, b := range edges {
			if b > 0 {
				m++
			}
		}
		return m > p.e
	case 2:
		for v := 0; v < n; v++ {
			d := 0
			for u := 0; u < n; u++ {
				if u != v && adj(u, v) {
					d++
				}
			}
			if d > p.e {
				return true
			}
		}
		return false
	}
	// induced copy of F (fn vertices) under some injection
	fa := func(i, j int) bool {
		if i > j {
			i, j = j, i
		}
		return p.f[j*(j-1)/2+i] > 0
	}
	img := make([]int, 0, p.fn)
	used := make([]bool, n)
	var rec func() bool
	rec = func() bool {
		if len(img) == p.fn {
			return true
		}
		k := len(img)
		for v := 0; v < n; v++ {
			if used[v] {
				continue
			}
			ok := true
			for q := 0; q < k; q++ {
				if adj(img[q], v) != fa(q, k) {
					ok = false
					break
				}
			}
			if ok {
				used[v] = true
				img = append(img, v)
				if rec() {
					return true
				}
				img = img[:len(img)-1]
				used[v] = false
			}
		}
		return false
	}
	return rec()
}

func s3DrawPred(F int) s3Pred {
	switch rt.Choice("pred", 3) {
	case 1:
		return s3Pred{kind: 1, e: rt.Choice("e", 5)}
	case 2:
		return s3Pred{kind: 2, e: rt.Choice("d", 3)}
	}
	// forbidden induced subgraph on fn vertices; fn = 1 forbids every non-empty graph
	// ("fewer than one vertex"), fn = 0 forbids everything including the empty graph
	fn := rt.Choice("fn", F+1)
	f := make([]byte, fn*(fn-1)/2)
	for k := range f {
		f[k] = rt.ConcreteByte(rt.Bit("f"))
	}
	return s3Pred{kind: 0, f: f, fn: fn}
}

func c03Prune(N, M, F int) {
	n := rt.Choice("n", N+1)
	m := 1 + rt.Choice("m", M)
	pred := s3DrawPred(F)
	asPre := rt.Choice("placement", 2) == 0
	rej := func(g *graph.DenseGraph) bool { return pred.rejects(g.N(), g.Edges) }
	no := func(g *graph.DenseGraph) bool { return false }
	perms := s3Perms(n)
	var got []s3Out
	for a := 0; a < m; a++ {
		var it *GraphIterator
		if asPre {
			it = WithPruning(n, a, m, rej, no)
		} else {
			it = WithPruning(n, a, m, no, rej)
		}
		outs, ok := s3Drain(it, s3Classes[n], "WithPruning")
		if !ok {
			return
		}
		got = append(got, outs...)
	}
	seen := map[int]bool{}
	for _, o := range got {
		if !s3WellFormed(o, n, "WithPruning") {
			return
		}
		rt.Check(!pred.rejects(n, o.edges), "WithPruning: yields a graph that the predicate rejects")
		k := s3Key(n, o.edges, perms)
		rt.Check(!seen[k], "WithPruning: two yielded graphs are isomorphic")
		seen[k] = true
	}
	// every class of the unpruned search that satisfies the predicate must be present
	want := 0
	ref, ok := s3Drain(All(n, 0, 1), s3Classes[n], "All")
	if !ok {
		return
	}
	for _, o := range ref {
		if !pred.rejects(n, o.edges) {
			want++
			rt.Check(seen[s3Key(n, o.edges, perms)], "WithPruning: a class satisfying the hereditary predicate is missing")
		}
	}
	rt.Check(len(got) == want, "WithPruning: wrong number of graphs")
	rt.Reach("end")
}

func H_c03_prune_q() { c03Prune(5, 2, 3) }
func H_c03_prune_t() { c03Prune(6, 3, 3) }

// ---- C04: Save / Load

func s4Same(a, b s3Out) bool {
	if a.n != b.n || a.m != b.m || len(a.edges) != len(b.edges) || len(a.deg) != len(b.deg) {
		return false
	}
	for i := range a.edges {
		if a.edges[i] != b.edges[i] {
			return false
		}
	}
	for i := range a.deg {
		if a.deg[i] != b.deg[i] {
			return false
		}
	}
	return true
}

func c04Resume(N, M int, withPred bool) {
	n := rt.Choice("n", N+1)
	m := 1 + rt.Choice("m", M)
	a := rt.Choice("a", m)
	no := func(g *graph.DenseGraph) bool { return false }
	pre, pr := no, no
	if withPred {
		pred := s3DrawPred(2)
		rej := func(g *graph.DenseGraph) bool { return pred.rejects(g.N(), g.Edges) }
		if rt.Choice("placement", 2) == 0 {
			pre = rej
		} else {
			pr = rej
		}
	}
	// the undisturbed twin gives the expected sequence
	full, ok := s3Drain(WithPruning(n, a, m, pre, pr), s3Classes[n], "twin")
	if !ok {
		return
	}
	k := rt.Choice("savepoint", len(full)+2) // 0 .. len+1 (after exhaustion)
	orig := WithPruning(n, a, m, pre, pr)
	for i := 0; i < k; i++ {
		orig.Next()
	}
	var buf bytes.Buffer
	p, msg := rt.Panics(func() { orig.Save(&buf) })
	rt.Check(!p, "Save panicked: "+msg)
	if p {
		return
	}
	var loaded *GraphIterator
	p, msg = rt.Panics(func() { loaded = Load(&buf, pre, pr) })
	rt.Check(!p, "Load panicked: "+msg)
	if p {
		return
	}
	order := rt.Choice("order", 2)
	var restO, restL []s3Out
	drainO := func() {
		for orig.Next() {
			restO = append(restO, s3Snapshot(orig.Value()))
			if len(restO) > len(full)+1 {
				break
			}
		}
	}
	drainL := func() {
		for loaded.Next() {
			restL = append(restL, s3Snapshot(loaded.Value()))
			if len(restL) > len(full)+1 {
				break
			}
		}
	}
	if order == 0 {
		drainO()
		drainL()
	} else {
		drainL()
		drainO()
	}
	wantFrom := k
	if wantFrom > len(full) {
		wantFrom = len(full)
	}
	want := full[wantFrom:]
	rt.Check(len(restO) == len(want), "saving disturbed the original iterator (remaining count differs)")
	rt.Check(len(restL) == len(want), "loaded iterator yields a different number of remaining graphs")
	for i := range want {
		if i < len(restO) {
			rt.Check(s4Same(restO[i], want[i]), "saving disturbed the original iterator")
		}
		if i < len(restL) {
			rt.Check(s4Same(restL[i], want[i]), "loaded iterator does not continue with the remaining graphs in order")
		}
	}
	rt.Reach("end")
}

func H_c04_resume_q()     { c04Resume(4, 2, false) }
func H_c04_resumepred_q() { c04Resume(4, 1, true) }
func H_c04_resume_t()     { c04Resume(5, 3, false) }
func H_c04_resumepred_t() { c04Resume(5, 2, true) }

// c04Chain: save, load, advance, save again, load again.
func c04Chain(N int) {
	n := rt.Choice("n", N+1)
	no := func(g *graph.DenseGraph) bool { return false }
	full, ok := s3Drain(All(n, 0, 1), s3Classes[n], "twin")
	if !ok {
		return
	}
	k1 := rt.Choice("k1", len(full)+1)
	k2 := rt.Choice("k2", len(full)-k1+1)
	it := All(n, 0, 1)
	for i := 0; i < k1; i++ {
		it.Next()
	}
	var b1 bytes.Buffer
	it.Save(&b1)
	it2 := Load(&b1, no, no)
	for i := 0; i < k2; i++ {
		it2.Next()
	}
	var b2 bytes.Buffer
	it2.Save(&b2)
	it3 := Load(&b2, no, no)
	var rest []s3Out
	for it3.Next() {
		rest = append(rest, s3Snapshot(it3.Value()))
		if len(rest) > len(full) {
			break
		}
	}
	want := full[k1+k2:]
	rt.Check(len(rest) == len(want), "chained save/load: wrong number of remaining graphs")
	for i := range want {
		if i < len(rest) {
			rt.Check(s4Same(rest[i], want[i]), "chained save/load: wrong remaining graph")
		}
	}
	rt.Reach("end")
}

func H_c04_chain_q() { c04Chain(4) }
func H_c04_chain_t() { c04Chain(5) }

// c04Fields: the saved image is lossless for the DFS bookkeeping whatever its values: the
// iterator is advanced k graphs into a small search, then every entry of currentPath and
// choices is replaced by a symbolic value in [0, 2^13] (the number of untried augmentations
// at a level is at most 2^level; a search on 14 vertices reaches 2^13), and Save + Load must
// hand back exactly those values.  The state need not be reachable: this is the one-step
// "Save/Load is the identity on the fields it carries" contract, which a search deep enough
// to produce large counts (n >= 10, thousands of graphs) relies on.
func c04Fields(N int) {
	n := 2 + rt.Choice("n", N-1)
	no := func(g *graph.DenseGraph) bool { return false }
	orig := WithPruning(n, 0, 1, no, no)
	k := rt.Choice("advance", 4)
	for i := 0; i < k; i++ {
		orig.Next()
	}
	for i := range orig.currentPath {
		orig.currentPath[i] = rt.IntIn("path", 0, 1<<13)
	}
	for i := range orig.choices {
		orig.choices[i] = uint(rt.IntIn("choice", 0, 1<<13))
	}
	wantPath := append([]int{}, orig.currentPath...)
	wantChoices := append([]uint{}, orig.choices...)
	var buf bytes.Buffer
	p, msg := rt.Panics(func() { orig.Save(&buf) })
	rt.Check(!p, "Save panicked: "+msg)
	if p {
		return
	}
	var loaded *GraphIterator
	p, msg = rt.Panics(func() { loaded = Load(&buf, no, no) })
	rt.Check(!p, "Load panicked: "+msg)
	if p {
		return
	}
	rt.Check(len(loaded.currentPath) == len(wantPath), "Load: currentPath has a different length")
	rt.Check(len(loaded.choices) == len(wantChoices), "Load: choices has a different length")
	for i := range wantPath {
		if i < len(loaded.currentPath) {
			rt.Check(loaded.currentPath[i] == wantPath[i], "Save/Load does not preserve the number of untried augmentations of a level")
		}
	}
	for i := range wantChoices {
		if i < len(loaded.choices) {
			rt.Check(loaded.choices[i] == wantChoices[i], "Save/Load does not preserve a pending choice")
		}
	}
	rt.Check(loaded.first == orig.first && loaded.n == orig.n && loaded.a == orig.a && loaded.m == orig.m, "Save/Load does not preserve the configuration")
	rt.Reach("end")
}

func H_c04_fields_q() { c04Fields(4) }
