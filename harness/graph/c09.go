package graph

import (
	rt "github.com/Tom-Johnston/mamba/zzverifrt"
)

// c09Reps returns g in the representations of the property: dense, sparse,
// complement-of-complement view and induced-subgraph (identity) view.
func c09Reps(adj [][]bool) ([]Graph, []string) {
	n := len(adj)
	id := make([]int, n)
	for i := range id {
		id[i] = i
	}
	comp := make([][]bool, n)
	for i := range comp {
		comp[i] = make([]bool, n)
		for j := range comp[i] {
			comp[i][j] = i != j && !adj[i][j]
		}
	}
	return []Graph{vgDense(adj), vgSparse(adj), Complement(vgDense(comp)), InducedSubgraph(vgSparse(adj), id)},
		[]string{"dense", "sparse", "complement view", "induced-subgraph view"}
}

// c09Taus: the two generators of S_n used for relabelling invariance.
func c09Taus(n int) [][]int {
	if n < 2 {
		return nil
	}
	swap := make([]int, n)
	rot := make([]int, n)
	for i := range swap {
		swap[i] = i
		rot[i] = (i + 1) % n
	}
	swap[0], swap[1] = 1, 0
	if n == 2 {
		return [][]int{swap}
	}
	return [][]int{swap, rot}
}

// c09SymSubset draws a symbolic vertex subset as n booleans.
func c09SymSubset(name string, n int) []bool {
	s := make([]bool, n)
	for i := range s {
		s[i] = rt.Bool(name)
	}
	return s
}

func c09Card(s []bool) int {
	c := 0
	for _, b := range s {
		c += rt.B2I(b)
	}
	return c
}

// c09AllAdj: formula "every two distinct members of s are adjacent (want=true) / non-adjacent (want=false)".
func c09AllAdj(adj [][]bool, s []bool, want bool) bool {
	r := true
	for i := range s {
		for j := i + 1; j < len(s); j++ {
			if adj[i][j] != want {
				r = rt.And(r, rt.Not(rt.And(s[i], s[j])))
			}
		}
	}
	return r
}

func c09Cliques(N int) {
	n := rt.Choice("n", N+1)
	adj := vgAdj(n, vgBits(n))
	reps, names := c09Reps(adj)
	omega, alpha := -1, -1
	for r, g := range reps {
		w := CliqueNumber(g)
		a := IndependenceNumber(g)
		if r == 0 {
			omega, alpha = w, a
			// exactness: a clique of that size exists among the maximal cliques (below); none larger exists
			s := c09SymSubset("clique", n)
			rt.Check(rt.Not(rt.And(c09AllAdj(adj, s, true), c09Card(s) > w)), "CliqueNumber too small: a larger clique exists")
			t := c09SymSubset("indep", n)
			rt.Check(rt.Not(rt.And(c09AllAdj(adj, t, false), c09Card(t) > a)), "IndependenceNumber too small: a larger independent set exists")
			// lower bounds by brute force over subsets
			bw, ba := 0, 0
			for mask := 0; mask < 1<<uint(n); mask++ {
				isC, isI, sz := true, true, 0
				for i := 0; i < n; i++ {
					if mask>>uint(i)&1 == 0 {
						continue
					}
					sz++
					for j := i + 1; j < n; j++ {
						if mask>>uint(j)&1 == 1 {
							if adj[i][j] {
								isI = false
							} else {
								isC = false
							}
						}
					}
				}
				if isC && sz > bw {
					bw = sz
				}
				if isI && sz > ba {
					ba = sz
				}
			}
			rt.Check(w == bw, "CliqueNumber differs from the definition")
			rt.Check(a == ba, "IndependenceNumber differs from the definition")
		} else {
			rt.Check(w == omega, "CliqueNumber differs on the "+names[r])
			rt.Check(a == alpha, "IndependenceNumber differs on the "+names[r])
		}
		// AllMaximalCliques: each maximal clique exactly once
		ch := make(chan []int, (1<<uint(n))+1)
		AllMaximalCliques(g, ch)
		got, closed := vgDrain(ch)
		rt.Check(closed, "AllMaximalCliques returned without closing its channel")
		seen := make([]int, 1<<uint(n))
		cnt := 0
		for _, c := range got {
			mask := 0
			for _, v := range c {
				ok := v >= 0 && v < n
				rt.Check(ok, "AllMaximalCliques: vertex out of range")
				if !ok {
					return
				}
				rt.Check(mask>>uint(v)&1 == 0, "AllMaximalCliques: vertex repeated in a clique")
				mask |= 1 << uint(v)
			}
			seen[mask]++
			cnt++
		}
		for mask := 0; mask < 1<<uint(n); mask++ {
			isC := true
			for i := 0; i < n && isC; i++ {
				for j := i + 1; j < n; j++ {
					if mask>>uint(i)&1 == 1 && mask>>uint(j)&1 == 1 && !adj[i][j] {
						isC = false
						break
					}
				}
			}
			maximal := isC
			if isC {
				for v := 0; v < n; v++ {
					if mask>>uint(v)&1 == 1 {
						continue
					}
					all := true
					for u := 0; u < n; u++ {
						if mask>>uint(u)&1 == 1 && !adj[u][v] {
							all = false
							break
						}
					}
					if all {
						maximal = false
						break
					}
				}
			}
			want := 0
			if maximal {
				want = 1
			}
			rt.Check(seen[mask] == want, "AllMaximalCliques: not exactly the maximal cliques, once each ("+names[r]+")")
		}
	}
	for _, tau := range c09Taus(n) {
		g := vgDense(vgRelabel(adj, tau))
		rt.Check(CliqueNumber(g) == omega, "CliqueNumber changes under relabelling")
		rt.Check(IndependenceNumber(g) == alpha, "IndependenceNumber changes under relabelling")
	}
	rt.Reach("end")
}

func H_c09_cliques_q() { c09Cliques(5) }
func H_c09_cliques_t() { c09Cliques(6) }

func c09Proper(adj [][]bool, c []int) bool {
	for i := range adj {
		for j := i + 1; j < len(adj); j++ {
			if adj[i][j] && c[i] == c[j] {
				return false
			}
		}
	}
	return true
}

// c09NoColouring: obligation "no proper colouring of adj with colours < k" (solver-side, symbolic colouring).
func c09NoColouring(adj [][]bool, k int, msg string) {
	n := len(adj)
	if k < 0 {
		return
	}
	if k == 0 {
		if n == 0 {
			rt.Fail(msg) // the empty graph is 0-colourable
		}
		return
	}
	c := make([]int, n)
	f := true
	for i := range c {
		c[i] = rt.IntIn("colour", 0, k-1)
	}
	for i := 0; i < n; i++ {
		for j := i + 1; j < n; j++ {
			if adj[i][j] {
				f = rt.And(f, c[i] != c[j])
			}
		}
	}
	rt.Check(rt.Not(f), msg)
}

func c09Colouring(N int) {
	n := rt.Choice("n", N+1)
	adj := vgAdj(n, vgBits(n))
	reps, names := c09Reps(adj)
	chi := -1
	for r, g := range reps {
		x, col := ChromaticNumber(g)
		rt.Check(len(col) == n, "ChromaticNumber: colouring has wrong length ("+names[r]+")")
		if len(col) != n {
			return
		}
		used := make([]bool, n+1)
		for _, c := range col {
			ok := c >= 0 && c < x
			rt.Check(ok, "ChromaticNumber: colour outside [0, chi)")
			if ok {
				used[c] = true
			}
		}
		for c := 0; c < x; c++ {
			rt.Check(used[c], "ChromaticNumber: colouring does not use exactly chi colours")
		}
		rt.Check(c09Proper(adj, col), "ChromaticNumber: colouring is not proper")
		rt.Check(IsProperColouring(g, col), "IsProperColouring rejects a proper colouring")
		if r == 0 {
			chi = x
			c09NoColouring(adj, x-1, "ChromaticNumber is not minimal: a proper colouring with fewer colours exists")
		} else {
			rt.Check(x == chi, "ChromaticNumber differs on the "+names[r])
		}
	}
	g := reps[rt.Choice("rep", len(reps))]
	// IsKColorable for every k
	for k := 0; k <= n+1; k++ {
		ok, col := IsKColorable(g, k)
		rt.Check(ok == (k >= chi), "IsKColorable wrong")
		if ok {
			rt.Check(len(col) == n && c09Proper(adj, col), "IsKColorable: colouring not proper")
			for _, c := range col {
				rt.Check(c >= 0 && c < k, "IsKColorable: colour outside [0,k)")
			}
		}
	}
	for _, tau := range c09Taus(n) {
		x, _ := ChromaticNumber(vgDense(vgRelabel(adj, tau)))
		rt.Check(x == chi, "ChromaticNumber changes under relabelling")
	}
	rt.Reach("end")
}

func H_c09_colouring_q() { c09Colouring(5) }

// c09IsProper: IsProperColouring on arbitrary colour vectors (incl. negative colours and wrong lengths).
func c09IsProper(N int) {
	n := rt.Choice("n", N+1)
	adj := vgAdj(n, vgBits(n))
	reps, _ := c09Reps(adj)
	g := reps[rt.Choice("rep", len(reps))]
	l := rt.Choice("len", n+2)
	cv := make([]int, l)
	for i := range cv {
		cv[i] = rt.Concrete(rt.IntIn("cv", -1, 2))
	}
	want := l == n
	if want {
		want = c09Proper(adj, cv)
		for _, c := range cv {
			if c < 0 {
				want = false
			}
		}
	}
	rt.Check(IsProperColouring(g, cv) == want, "IsProperColouring wrong")
	rt.Check(!IsProperColouring(g, nil) || n == 0, "IsProperColouring accepts nil")
	rt.Reach("end")
}

func H_c09_isproper_q()  { c09IsProper(3) }
func H_c09_isproper_t()  { c09IsProper(4) }
func H_c09_colouring_t() { c09Colouring(6) }

func c09Greedy(N int) {
	n := rt.Choice("n", N+1)
	adj := vgAdj(n, vgBits(n))
	reps, _ := c09Reps(adj)
	g := reps[rt.Choice("rep", len(reps))]
	order := vgPerm("order", n)
	c09GreedyCheck(adj, g, order)
	rt.Reach("end")
}

func c09GreedyCheck(adj [][]bool, g Graph, order []int) {
	n := len(adj)
	maxc, col := GreedyColor(g, append([]int{}, order...))
	rt.Check(len(col) == n, "GreedyColor: wrong length")
	if len(col) != n {
		return
	}
	rt.Check(c09Proper(adj, col), "GreedyColor: not proper")
	done := make([]bool, n)
	top := -1
	for _, v := range order {
		// first fit: least colour absent from earlier neighbours
		usedc := make([]bool, n+1)
		for u := 0; u < n; u++ {
			if done[u] && adj[u][v] && col[u] >= 0 && col[u] <= n {
				usedc[col[u]] = true
			}
		}
		want := 0
		for usedc[want] {
			want++
		}
		rt.Check(col[v] == want, "GreedyColor: not first-fit")
		if col[v] > top {
			top = col[v]
		}
		done[v] = true
	}
	rt.Check(maxc == top, "GreedyColor: returned maximum colour wrong")
}

func H_c09_greedy_q() { c09Greedy(4) }
func H_c09_greedy_t() { c09Greedy(5) }

// c09GreedyBig: every labelled graph on lo..hi vertices with three fixed orders (identity,
// reverse, evens-then-odds).  Every (graph, order) pair is isomorphic to a labelled graph
// with the identity order, so defects that do not depend on the vertex names are covered
// for all orders; the all-orders quantifier itself is discharged only up to c09Greedy's n.
func c09GreedyBig(lo, hi, R, O int) {
	n := lo + rt.Choice("n", hi-lo+1)
	adj := vgAdj(n, vgBits(n))
	var g Graph
	if rt.Choice("rep", R) == 0 {
		g = vgDense(adj)
	} else {
		g = vgSparse(adj)
	}
	order := make([]int, 0, n)
	switch rt.Choice("order", O) {
	case 0:
		for v := 0; v < n; v++ {
			order = append(order, v)
		}
	case 1:
		for v := n - 1; v >= 0; v-- {
			order = append(order, v)
		}
	default:
		for v := 0; v < n; v += 2 {
			order = append(order, v)
		}
		for v := 1; v < n; v += 2 {
			order = append(order, v)
		}
	}
	c09GreedyCheck(adj, g, order)
	rt.Reach("end")
}

func H_c09_greedybig_q() { c09GreedyBig(5, 6, 2, 3) }
func H_c09_greedybig_t() { c09GreedyBig(7, 7, 1, 1) }

func c09EdgeCol(N int) {
	n := rt.Choice("n", N+1)
	adj := vgAdj(n, vgBits(n))
	reps, _ := c09Reps(adj)
	g := reps[rt.Choice("rep", 2)]
	ci, ce := ChromaticIndex(g)
	m := 0
	for i := 0; i < n; i++ {
		for j := i + 1; j < n; j++ {
			if adj[i][j] {
				m++
			}
		}
	}
	rt.Check(len(ce) == n*(n-1)/2, "ChromaticIndex: edge array has the wrong length")
	if len(ce) != n*(n-1)/2 {
		return
	}
	used := make([]bool, m+2)
	for j := 1; j < n; j++ {
		for i := 0; i < j; i++ {
			c := int(ce[j*(j-1)/2+i])
			if !adj[i][j] {
				rt.Check(c == 0, "ChromaticIndex: non-edge has a colour")
				continue
			}
			ok := c >= 1 && c <= ci
			rt.Check(ok, "ChromaticIndex: edge colour outside [1, chi']")
			if ok {
				used[c] = true
			}
			// proper at both ends
			for k := 0; k < n; k++ {
				if k != i && k != j {
					if adj[i][k] {
						a, b := i, k
						if a > b {
							a, b = b, a
						}
						rt.Check(int(ce[b*(b-1)/2+a]) != c, "ChromaticIndex: two edges at a vertex share a colour")
					}
					if adj[j][k] {
						a, b := j, k
						if a > b {
							a, b = b, a
						}
						rt.Check(int(ce[b*(b-1)/2+a]) != c, "ChromaticIndex: two edges at a vertex share a colour")
					}
				}
			}
		}
	}
	for c := 1; c <= ci; c++ {
		rt.Check(used[c], "ChromaticIndex: colouring does not use exactly chi' colours")
	}
	// minimality: no proper edge colouring with ci-1 colours (solver-side)
	if m == 0 {
		rt.Check(ci == 0, "ChromaticIndex of an edgeless graph is not 0")
	} else {
		type e struct{ i, j int }
		var es []e
		for j := 1; j < n; j++ {
			for i := 0; i < j; i++ {
				if adj[i][j] {
					es = append(es, e{i, j})
				}
			}
		}
		if ci-1 >= 1 {
			col := make([]int, len(es))
			for k := range col {
				col[k] = rt.IntIn("ecol", 1, ci-1)
			}
			f := true
			for a := range es {
				for b := a + 1; b < len(es); b++ {
					if es[a].i == es[b].i || es[a].i == es[b].j || es[a].j == es[b].i || es[a].j == es[b].j {
						f = rt.And(f, col[a] != col[b])
					}
				}
			}
			rt.Check(rt.Not(f), "ChromaticIndex is not minimal")
		} else {
			rt.Check(ci >= 1, "ChromaticIndex below 1 with edges present")
		}
	}
	rt.Reach("end")
}

func H_c09_edgecol_q() { c09EdgeCol(5) }
func H_c09_edgecol_t() { c09EdgeCol(6) }

func c09Poly(N int) {
	n := rt.Choice("n", N+1)
	adj := vgAdj(n, vgBits(n))
	var g EditableGraph
	if rt.Choice("rep", 2) == 0 {
		g = vgDense(adj)
	} else {
		g = vgSparse(adj)
	}
	poly := ChromaticPolynomial(g)
	vgAgree(g, adj, "ChromaticPolynomial modified its argument")
	rt.Check(len(poly) == n+1, "ChromaticPolynomial: wrong number of coefficients")
	if len(poly) != n+1 {
		return
	}
	col := make([]int, n)
	for k := 0; k <= n; k++ {
		// count proper k-colourings by brute force
		cnt := 0
		var rec func(v int)
		rec = func(v int) {
			if v == n {
				cnt++
				return
			}
			for c := 0; c < k; c++ {
				ok := true
				for u := 0; u < v; u++ {
					if adj[u][v] && col[u] == c {
						ok = false
						break
					}
				}
				if ok {
					col[v] = c
					rec(v + 1)
				}
			}
		}
		rec(0)
		val, pw := 0, 1
		for i := 0; i <= n; i++ {
			val += poly[i] * pw
			pw *= k
		}
		rt.Check(val == cnt, "ChromaticPolynomial(k) differs from the number of proper k-colourings")
	}
	rt.Reach("end")
}

func H_c09_poly_q() { c09Poly(5) }
func H_c09_poly_t() { c09Poly(6) }

func c09Degeneracy(N int) {
	n := rt.Choice("n", N+1)
	adj := vgAdj(n, vgBits(n))
	reps, names := c09Reps(adj)
	dd := -1
	for r, g := range reps {
		d, order := Degeneracy(g)
		if n == 0 {
			rt.Check(d == 0, "Degeneracy of the empty graph")
			continue
		}
		rt.Check(len(order) == n, "Degeneracy: order has wrong length")
		if len(order) != n {
			return
		}
		pos := make([]int, n)
		for i := range pos {
			pos[i] = -1
		}
		for p, v := range order {
			ok := v >= 0 && v < n && pos[v] == -1
			rt.Check(ok, "Degeneracy: order is not a permutation")
			if !ok {
				return
			}
			pos[v] = p
		}
		for v := 0; v < n; v++ {
			before := 0
			for u := 0; u < n; u++ {
				if adj[u][v] && pos[u] < pos[v] {
					before++
				}
			}
			rt.Check(before <= d, "Degeneracy: a vertex is preceded by more than d neighbours in the returned order")
		}
		if r == 0 {
			dd = d
			// d is the true degeneracy = max over non-empty subsets S of the minimum degree inside S
			best := 0
			for mask := 1; mask < 1<<uint(n); mask++ {
				mind := n
				for v := 0; v < n; v++ {
					if mask>>uint(v)&1 == 0 {
						continue
					}
					dg := 0
					for u := 0; u < n; u++ {
						if mask>>uint(u)&1 == 1 && adj[u][v] {
							dg++
						}
					}
					if dg < mind {
						mind = dg
					}
				}
				if mind > best {
					best = mind
				}
			}
			rt.Check(d == best, "Degeneracy differs from max over subgraphs of the minimum degree")
		} else {
			rt.Check(d == dd, "Degeneracy differs on the "+names[r])
		}
	}
	for _, tau := range c09Taus(n) {
		d, _ := Degeneracy(vgDense(vgRelabel(adj, tau)))
		rt.Check(d == dd || n == 0, "Degeneracy changes under relabelling")
	}
	rt.Reach("end")
}

func H_c09_degeneracy_q() { c09Degeneracy(5) }
func H_c09_degeneracy_t() { c09Degeneracy(6) }

// c09CliqueWithTrees: EVERY labelled graph on n vertices that is a clique K_k (on every
// k-subset of the labels) with trees hanging off it (every rooted forest on the other
// vertices): many small maximal cliques around one large one, which is found early or late
// depending on the labelling.  One path per clique position; the forests are looped over
// inside the path.  CliqueNumber == k; with full also AllMaximalCliques == the clique plus
// the tree edges, each once.
func c09CliqueWithTrees(n, k int, full bool, cores [][]int) {
	var core []int
	if cores != nil {
		core = cores[rt.Choice("core", len(cores))]
	} else {
		lo := 0
		for i := 0; i < k; i++ {
			v := lo + rt.Choice("core", n-(k-i)+1-lo)
			core = append(core, v)
			lo = v + 1
		}
	}
	inCore := make([]bool, n)
	for _, v := range core {
		inCore[v] = true
	}
	var rest []int
	idxOf := make([]int, n)
	for v := 0; v < n; v++ {
		if !inCore[v] {
			idxOf[v] = len(rest)
			rest = append(rest, v)
		}
	}
	r := len(rest)
	par := make([]int, r) // parent of rest[i]: a vertex other than itself
	for i := range par {
		if rest[i] == 0 {
			par[i] = 1
		}
	}
	// the last vertex's parent is a choice (more paths, same family); the others are looped over
	top := rt.Choice("top", n-1)
	if top >= rest[r-1] {
		top++
	}
	par[r-1] = top
	r1 := r - 1
	pos := func(a, b int) int {
		if a > b {
			a, b = b, a
		}
		return b*(b-1)/2 + a
	}
	edges := make([]byte, n*(n-1)/2)
	deg := make([]int, n)
	count := 0
	for {
		// acyclic: every chain of parents reaches the core
		ok := true
		for i := 0; i < r && ok; i++ {
			v := rest[i]
			for steps := 0; !inCore[v]; steps++ {
				if steps > r {
					ok = false
					break
				}
				v = par[idxOf[v]]
			}
		}
		if ok {
			count++
			for i := range edges {
				edges[i] = 0
			}
			for i := range deg {
				deg[i] = 0
			}
			for x, a := range core {
				for _, b := range core[x+1:] {
					edges[pos(a, b)] = 1
					deg[a]++
					deg[b]++
				}
			}
			for i := 0; i < r; i++ {
				edges[pos(rest[i], par[i])] = 1
				deg[rest[i]]++
				deg[par[i]]++
			}
			g := &DenseGraph{NumberOfVertices: n, NumberOfEdges: k*(k-1)/2 + r, DegreeSequence: deg, Edges: edges}
			if CliqueNumber(g) != k {
				rt.Fail("CliqueNumber wrong on a clique with trees attached")
				return
			}
			if full {
				ch := make(chan []int, 2*n+2)
				AllMaximalCliques(g, ch)
				got, closed := vgDrain(ch)
				if !closed {
					rt.Fail("AllMaximalCliques returned without closing its channel")
					return
				}
				mc := len(got)
				if mc != 1+r {
					rt.Fail("AllMaximalCliques: wrong number of maximal cliques on a clique with trees attached")
					return
				}
			}
		}
		// next parent vector (each entry ranges over the n-1 other vertices)
		i := 0
		for i < r1 {
			par[i]++
			if par[i] == rest[i] {
				par[i]++
			}
			if par[i] < n {
				break
			}
			par[i] = 0
			if rest[i] == 0 {
				par[i] = 1
			}
			i++
		}
		if i == r1 {
			break
		}
	}
	rt.Check(count >= 0, "harness")
	rt.Reach("end")
}

// quick: the triangle on the lowest, a middle and the highest labels (3 of the 56 positions)
func H_c09_cliquetrees_q() {
	c09CliqueWithTrees(8, 3, false, [][]int{{0, 1, 2}, {2, 3, 4}, {5, 6, 7}})
}
func H_c09_cliquetrees_t() { c09CliqueWithTrees(8, 3+rt.Choice("k", 2), true, nil) }
