package sortints

import (
	rt "github.com/Tom-Johnston/mamba/zzverifrt"
)

// H_c19_sortints: two receivers built from the SAME source slice are mutated by two actors.
func H_c19_sortints() {
	l := rt.Choice("len", 4)
	src := make([]int, l)
	for i := range src {
		src[i] = rt.IntIn("src", 0, 5)
	}
	a := NewSortedInts(src...)
	b := NewSortedInts(src...)
	x, y := rt.IntIn("x", 0, 6), rt.IntIn("y", 0, 6)
	rt.ActorBegin(1)
	a.Add(x)
	a.Remove(y)
	ua := Union(a, SortedInts{x})
	rt.ActorEnd()
	rt.ActorBegin(2)
	b.Remove(x)
	b.Add(y)
	ub := Intersection(b, SortedInts{y})
	rt.ActorEnd()
	rt.FootprintCheck()
	_, _ = ua, ub
	rt.Reach("end")
}
