package sortints

import (
	rt "github.com/Tom-Johnston/mamba/zzverifrt"
)

// c17Set draws a SortedInts of symbolic length <= maxLen with unconstrained
// 64-bit elements (strictly increasing) and `spare` extra capacity filled
// with symbolic garbage.
func c17Set(name string, maxLen, spare int) SortedInts {
	l := rt.Choice(name+".len", maxLen+1)
	back := make([]int, l+spare)
	for i := range back {
		back[i] = rt.Int(name)
	}
	for i := 1; i < l; i++ {
		rt.Assume(back[i-1] < back[i])
	}
	return SortedInts(back[:l])
}

// c17In is the branch-free membership formula v ∈ s.
func c17In(s []int, v int) bool {
	r := false
	for _, e := range s {
		r = rt.Or(r, e == v)
	}
	return r
}

func c17Sorted(s []int, what string) {
	for i := 1; i < len(s); i++ {
		rt.Check(s[i-1] < s[i], what+": result not strictly increasing")
	}
}

func c17Copy(s []int) []int {
	c := make([]int, len(s))
	copy(c, s)
	return c
}

func c17Same(a, b []int, what string) {
	rt.Check(len(a) == len(b), what+": argument length changed")
	if len(a) != len(b) {
		return
	}
	for i := range a {
		rt.Check(a[i] == b[i], what+": argument modified")
	}
}

// c17NoAlias scribbles over the whole backing array of r and checks that the
// argument slices keep their contents.
func c17NoAlias(r []int, what string, args ...[]int) {
	snaps := make([][]int, len(args))
	for i, a := range args {
		snaps[i] = c17Copy(a)
	}
	full := r[:cap(r)]
	for i := range full {
		full[i] = rt.Int("scribble")
	}
	for i, a := range args {
		c17Same(a, snaps[i], what+": result shares memory with an argument")
	}
}

func c17Binary(L int) {
	a := c17Set("a", L, rt.Choice("a.spare", 2))
	b := c17Set("b", L, 0)
	a0, b0 := c17Copy(a), c17Copy(b)
	v := rt.Int("probe")
	inA, inB := c17In(a, v), c17In(b, v)
	var r SortedInts
	var want bool
	what := ""
	switch rt.Choice("fn", 4) {
	case 0:
		what = "Union"
		r = Union(a, b)
		want = rt.Or(inA, inB)
	case 1:
		what = "Intersection"
		r = Intersection(a, b)
		want = rt.And(inA, inB)
		rt.Check(IntersectionSize(a, b) == len(r), "IntersectionSize differs from len(Intersection)")
	case 2:
		what = "SetMinus"
		r = SetMinus(a, b)
		want = rt.And(inA, rt.Not(inB))
	case 3:
		what = "XOR"
		r = XOR(a, b)
		want = inA != inB
	}
	c17Sorted(r, what)
	rt.Check(c17In(r, v) == want, what+": wrong membership")
	c17Same(a, a0, what)
	c17Same(b, b0, what)
	c17NoAlias(r, what, a, b)
	rt.Reach("end")
}

func H_c17_binary_q() { c17Binary(3) }
func H_c17_binary_t() { c17Binary(4) }

func c17Contains(L int) {
	a := c17Set("a", L, 0)
	b := c17Set("b", L, 0)
	a0, b0 := c17Copy(a), c17Copy(b)
	x := rt.Int("x")
	rt.Check(ContainsSingle(a, x) == c17In(a, x), "ContainsSingle wrong")
	got := ContainsSorted(a, b)
	want := true
	for _, e := range b {
		want = rt.And(want, c17In(a, e))
	}
	rt.Check(got == want, "ContainsSorted wrong")
	c17Same(a, a0, "Contains*")
	c17Same(b, b0, "Contains*")
	rt.Reach("end")
}

func H_c17_contains_q() { c17Contains(3) }
func H_c17_contains_t() { c17Contains(4) }

// c17Mutators: one step of Add / Remove / method Union / NewSortedInts from an
// arbitrary valid receiver (with and without spare capacity).
func c17Mutators(L, XL int) {
	spare := []int{0, 1, 3}[rt.Choice("spare", 3)]
	s := c17Set("s", L, spare)
	s0 := c17Copy(s)
	v := rt.Int("probe")
	inS := c17In(s, v)
	switch rt.Choice("fn", 4) {
	case 0: // Add
		xl := rt.Choice("x.len", XL+1)
		x := make([]int, xl)
		for i := range x {
			x[i] = rt.Int("x")
		}
		x0 := c17Copy(x)
		s.Add(x...)
		c17Sorted(s, "Add")
		rt.Check(c17In(s, v) == rt.Or(inS, c17In(x0, v)), "Add: wrong membership")
		c17Same(x, x0, "Add")
	case 1: // Remove
		x := rt.Int("x")
		s.Remove(x)
		c17Sorted(s, "Remove")
		rt.Check(c17In(s, v) == rt.And(inS, v != x), "Remove: wrong membership")
	case 2: // method Union
		b := c17Set("b", XL, 0)
		b0 := c17Copy(b)
		s.Union(b)
		c17Sorted(s, "method Union")
		rt.Check(c17In(s, v) == rt.Or(inS, c17In(b0, v)), "method Union: wrong membership")
		c17Same(b, b0, "method Union")
	case 3: // NewSortedInts
		xl := rt.Choice("x.len", XL+2)
		x := make([]int, xl)
		for i := range x {
			x[i] = rt.Int("x")
		}
		x0 := c17Copy(x)
		r := NewSortedInts(x...)
		c17Sorted(r, "NewSortedInts")
		rt.Check(c17In(r, v) == c17In(x0, v), "NewSortedInts: wrong membership")
		c17Same(x, x0, "NewSortedInts")
		c17NoAlias(r, "NewSortedInts", x)
	}
	_ = s0
	rt.Reach("end")
}

func H_c17_mut_q() { c17Mutators(3, 3) }
func H_c17_mut_t() { c17Mutators(4, 3) }

func c17Complement(N, L int) {
	n := rt.Concrete(rt.IntIn("n", 0, N))
	a := c17Set("a", L, 0) // any ints, including negative ones and elements >= n
	a0 := c17Copy(a)
	r := Complement(n, a)
	c17Sorted(r, "Complement")
	v := rt.Int("probe")
	rt.Check(c17In(r, v) == rt.And(rt.And(v >= 0, v < n), rt.Not(c17In(a, v))), "Complement: wrong membership")
	c17Same(a, a0, "Complement")
	c17NoAlias(r, "Complement", a)
	rt.Reach("end")
}

func H_c17_complement_q() { c17Complement(5, 3) }
func H_c17_complement_t() { c17Complement(7, 5) }

// c17Range: all (start, end, step) over the full int range; the mathematical result
// is case-split on its number of elements L0 in 1..K (resource bound).  The
// expected elements e_i = start + i*step are built by repeated addition; "e_i
// does not overflow" is e_i > e_(i-1) (resp. <) and membership is e_i < end (resp. >).
func c17Range(K int) {
	start, end, step := rt.Int("start"), rt.Int("end"), rt.Int("step")
	infinite := (end < start && step > 0) || (end > start && step < 0) || (end != start && step == 0)
	if rt.ConcreteBool(infinite) {
		p, _ := rt.Panics(func() { Range(start, end, step) })
		rt.Check(p, "Range: infinite set must panic")
		rt.Reach("end")
		return
	}
	if rt.ConcreteBool(start == end) {
		r := Range(start, end, step)
		rt.Check(len(r) == 0, "Range(start, start, step) must be empty")
		rt.Reach("end")
		return
	}
	asc := rt.ConcreteBool(start < end)
	L0 := 1 + rt.Choice("count", K)
	e := make([]int, L0)
	e[0] = start
	for i := 1; i < L0; i++ {
		e[i] = e[i-1] + step
		if asc {
			rt.Assume(e[i] > e[i-1]) // no overflow
			rt.Assume(e[i] < end)    // inside [start, end)
		} else {
			rt.Assume(e[i] < e[i-1])
			rt.Assume(e[i] > end) // inside (end, start]
		}
	}
	next := e[L0-1] + step
	if asc {
		rt.Assume(rt.Or(next < e[L0-1], next >= end)) // the next one overflows or leaves the range
	} else {
		rt.Assume(rt.Or(next > e[L0-1], next <= end))
	}
	var r SortedInts
	p, msg := rt.Panics(func() { r = Range(start, end, step) })
	rt.Check(!p, "Range panicked on a finite range: "+msg)
	if p {
		return
	}
	L := len(r)
	rt.Check(L == L0, "Range: wrong number of elements")
	if L != L0 {
		return
	}
	for i := 0; i < L; i++ {
		if asc {
			rt.Check(r[i] == e[i], "Range: wrong element")
		} else {
			rt.Check(r[L-1-i] == e[i], "Range: wrong element (a descending range must be start + i*step)")
		}
	}
	c17Sorted(r, "Range")
	rt.Reach("end")
}

func H_c17_range_q() { c17Range(4) }
func H_c17_range_t() { c17Range(8) }

// c17Asym: a long set against a short one (the shape any size-based fast path would key on):
// exact lengths LA and LB, all elements symbolic.  IntersectionSize in both argument orders
// equals the number of common elements (a formula), Intersection/Union/SetMinus/XOR have the
// right membership for a symbolic probe, the method Union agrees with the function.
func c17Asym(LA, LB int) {
	mk := func(name string, l int) SortedInts {
		s := make(SortedInts, l)
		for i := range s {
			s[i] = rt.Int(name)
			if i > 0 {
				rt.Assume(s[i-1] < s[i])
			}
		}
		return s
	}
	a, b := mk("a", LA), mk("b", LB)
	a0, b0 := c17Copy(a), c17Copy(b)
	common := 0
	for _, y := range b {
		hit := false
		for _, x := range a {
			hit = rt.Or(hit, x == y)
		}
		common += rt.B2I(hit)
	}
	rt.Check(IntersectionSize(a, b) == common, "IntersectionSize(long, short) wrong")
	rt.Check(IntersectionSize(b, a) == common, "IntersectionSize(short, long) wrong")
	v := rt.Int("probe")
	inA, inB := c17In(a, v), c17In(b, v)
	switch rt.Choice("fn", 5) {
	case 0:
		r := Union(a, b)
		c17Sorted(r, "Union")
		rt.Check(c17In(r, v) == rt.Or(inA, inB), "Union: wrong membership")
	case 1:
		r := Intersection(b, a)
		c17Sorted(r, "Intersection")
		rt.Check(len(r) == common, "Intersection: wrong size")
		rt.Check(c17In(r, v) == rt.And(inA, inB), "Intersection: wrong membership")
	case 2:
		r := SetMinus(a, b)
		c17Sorted(r, "SetMinus")
		rt.Check(c17In(r, v) == rt.And(inA, rt.Not(inB)), "SetMinus: wrong membership")
	case 3:
		r := XOR(b, a)
		c17Sorted(r, "XOR")
		rt.Check(c17In(r, v) == (inA != inB), "XOR: wrong membership")
	default:
		r := c17Copy(a)
		rs := SortedInts(r)
		rs.Union(b)
		c17Sorted(rs, "method Union")
		rt.Check(len(rs) == LA+LB-common, "method Union: wrong size")
		rt.Check(c17In(rs, v) == rt.Or(inA, inB), "method Union: wrong membership")
	}
	c17Same(a, a0, "long/short")
	c17Same(b, b0, "long/short")
	rt.Reach("end")
}

func H_c17_asym_q() { c17Asym(7+rt.Choice("la", 2), 2) }
func H_c17_asym_t() { c17Asym(9+rt.Choice("la", 2), 2+rt.Choice("lb", 2)) }
