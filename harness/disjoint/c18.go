package disjoint

import (
	rt "github.com/Tom-Johnston/mamba/zzverifrt"
)

// c18Forest draws an arbitrary valid disjoint-set forest on n elements:
// parent pointers in range whose chains reach a root, roots carrying an
// arbitrary negative rank value (ranks are not assumed accurate).
// It returns the set and the root of every element, computed by the harness.
func c18Forest(n int) (Set, []int) {
	ds := make(Set, n)
	for i := 0; i < n; i++ {
		ds[i] = rt.IntIn("ds", -n-1, n-1)
	}
	root := make([]int, n)
	for i := 0; i < n; i++ {
		cur := i
		steps := 0
		for {
			if rt.ConcreteBool(ds[cur] < 0) { // rank values stay symbolic
				break
			}
			cur = rt.Concrete(ds[cur]) // forks over parent shapes
			steps++
			rt.Assume(steps <= n) // acyclic
		}
		root[i] = cur
	}
	return ds, root
}

func c18RootOf(ds Set, x int) int {
	for ds[x] >= 0 {
		x = ds[x]
	}
	return x
}

// c18CheckForest: ds is still a forest whose partition is given by cls
// (cls[i] == cls[j] iff same set).
func c18CheckPartition(ds Set, n int, cls []int, what string) {
	for i := 0; i < n; i++ {
		v := ds[i]
		rt.Check(v < n, what+": parent out of range")
	}
	r := make([]int, n)
	for i := 0; i < n; i++ {
		cur := i
		steps := 0
		for {
			if rt.ConcreteBool(ds[cur] < 0) {
				break
			}
			cur = rt.Concrete(ds[cur])
			steps++
			if steps > n {
				rt.Fail(what + ": cycle in forest")
				return
			}
		}
		r[i] = cur
	}
	for i := 0; i < n; i++ {
		for j := i + 1; j < n; j++ {
			rt.Check((r[i] == r[j]) == (cls[i] == cls[j]), what+": partition changed incorrectly")
		}
	}
}

func c18Step(N int) {
	n := rt.Concrete(rt.IntIn("n", 1, N))
	ds, root := c18Forest(n)
	op := rt.Choice("op", 5)
	x := rt.Concrete(rt.IntIn("x", 0, n-1))
	switch op {
	case 4:
		// the derived views straight from an arbitrary valid forest (no lookup before them)
		c18Views(ds, n, root)
	case 0, 1:
		var got int
		if op == 0 {
			got = ds.Find(x)
		} else {
			c := 1 + (n-1)*rt.Choice("bufcap", 2)
			buf := make([]int, c)
			got = ds.FindBuffered(x, buf)
		}
		rt.Check(got == root[x], "Find returns the root of x's class")
		c18CheckPartition(ds, n, root, "after Find")
		// further finds of any element agree
		for y := 0; y < n; y++ {
			rt.Check(ds.Find(y) == root[y], "Find after Find (path compression re-parented across classes)")
		}
	case 2, 3:
		y := rt.Concrete(rt.IntIn("y", 0, n-1))
		if op == 2 {
			ds.Union(x, y)
		} else {
			c := 1 + (n-1)*rt.Choice("bufcap", 2)
			buf := make([]int, c)
			ds.UnionBuffered(x, y, buf)
		}
		cls := make([]int, n)
		for i := 0; i < n; i++ {
			cls[i] = root[i]
			if root[i] == root[y] {
				cls[i] = root[x]
			}
		}
		c18CheckPartition(ds, n, cls, "after Union")
		c18Views(ds, n, cls)
	}
	rt.Reach("end")
}

// c18Views checks Sets, SmallestRep and Roots against the partition cls.
func c18Views(ds0 Set, n int, cls []int) {
	// each view is taken on its own copy of the state, so that the lookups (and path
	// compression) of one view cannot prepare the ground for the next
	ds := append(Set{}, ds0...)
	sets := ds.Sets()
	seen := make([]int, n)
	for i := range seen {
		seen[i] = -1
	}
	prevLeast := -1
	for si, s := range sets {
		rt.Check(len(s) > 0, "Sets: empty set")
		if len(s) == 0 {
			return
		}
		rt.Check(s[0] > prevLeast, "Sets: not ordered by least element")
		prevLeast = s[0]
		for k, v := range s {
			rt.Check(v >= 0 && v < n, "Sets: element out of range")
			if k > 0 {
				rt.Check(s[k-1] < v, "Sets: set not sorted")
			}
			rt.Check(seen[v] == -1, "Sets: element twice")
			seen[v] = si
		}
	}
	for i := 0; i < n; i++ {
		rt.Check(seen[i] >= 0, "Sets: element missing")
		for j := i + 1; j < n; j++ {
			rt.Check((seen[i] == seen[j]) == (cls[i] == cls[j]), "Sets: wrong partition")
		}
	}
	c18CheckPartition(ds, n, cls, "after Sets")
	ds = append(Set{}, ds0...)
	sr := ds.SmallestRep()
	rt.Check(len(sr) == n, "SmallestRep length")
	for i := 0; i < n; i++ {
		least := i
		for j := 0; j < i; j++ {
			if cls[j] == cls[i] {
				least = j
				break
			}
		}
		rt.Check(sr[i] == least, "SmallestRep: not the least member")
	}
	c18CheckPartition(ds, n, cls, "after SmallestRep")
	ds = append(Set{}, ds0...)
	roots := ds.Roots()
	cnt := make(map[int]int)
	for _, r := range roots {
		rt.Check(r >= 0 && r < n, "Roots: out of range")
		cnt[cls[r]]++
	}
	for i := 0; i < n; i++ {
		rt.Check(cnt[cls[i]] == 1, "Roots: not exactly one root per set")
	}
}

func H_c18_step_q() { c18Step(4) }
func H_c18_step_t() { c18Step(6) }

// c18Hist: histories from New(n): k symbolic operations.
func c18Hist(N, K int) {
	n := rt.Concrete(rt.IntIn("n", 1, N))
	ds := New(n)
	cls := make([]int, n)
	for i := range cls {
		cls[i] = i
	}
	for step := 0; step < K; step++ {
		op := rt.Choice("op", 4)
		x := rt.Concrete(rt.IntIn("x", 0, n-1))
		switch op {
		case 0:
			ds.Find(x)
		case 1:
			ds.FindBuffered(x, make([]int, 1))
		default:
			y := rt.Concrete(rt.IntIn("y", 0, n-1))
			if op == 2 {
				ds.Union(x, y)
			} else {
				ds.UnionBuffered(x, y, make([]int, 2))
			}
			cx, cy := cls[x], cls[y]
			for i := range cls {
				if cls[i] == cy {
					cls[i] = cx
				}
			}
		}
		c18CheckPartition(ds, n, cls, "history")
	}
	c18Views(ds, n, cls)
	for i := 0; i < n; i++ {
		for j := 0; j < n; j++ {
			rt.Check((ds.Find(i) == ds.Find(j)) == (cls[i] == cls[j]), "same representative iff connected")
		}
	}
	rt.Reach("end")
}

func H_c18_hist_q() { c18Hist(4, 3) }
func H_c18_hist_t() { c18Hist(4, 4) }
