package ints

import (
	rt "github.com/Tom-Johnston/mamba/zzverifrt"
)

func c17Count(s []int, v int) int {
	c := 0
	for _, e := range s {
		c += rt.B2I(e == v)
	}
	return c
}

func c17SortedPerm(orig, got []int, what string) {
	rt.Check(len(orig) == len(got), what+": length changed")
	for i := 1; i < len(got); i++ {
		rt.Check(got[i-1] <= got[i], what+": not sorted")
	}
	v := rt.Int("probe")
	rt.Check(c17Count(orig, v) == c17Count(got, v), what+": not a permutation of the input")
}

func c17Sort(L int) {
	l := rt.Choice("len", L+1)
	a := rt.Ints("a", l)
	orig := make([]int, l)
	copy(orig, a)
	Sort(a)
	c17SortedPerm(orig, a, "ints.Sort")
	rt.Reach("end")
}

func H_c17_sort_q() { c17Sort(5) }
func H_c17_sort_t() { c17Sort(7) }

// in-package units on a sub-range [lo,hi) of a slice; cells outside must not change
func c17Units(L int) {
	l := rt.Choice("len", L+1)
	a := rt.Ints("a", l+2)
	orig := make([]int, len(a))
	copy(orig, a)
	switch rt.Choice("unit", 2) {
	case 0:
		heapSort(a, 1, 1+l)
	case 1:
		insertionSort(a, 1, 1+l)
	}
	rt.Check(a[0] == orig[0] && a[l+1] == orig[l+1], "sort unit wrote outside its range")
	c17SortedPerm(orig[1:1+l], a[1:1+l], "sort unit")
	rt.Reach("end")
}

func H_c17_units_q() { c17Units(4) }
func H_c17_units_t() { c17Units(6) }

// lengths that reach doPivot (> 12): every 0/1 sequence of length L (one concrete path each;
// by the 0-1 principle for comparison-based code this covers the ordering behaviour of every
// input of that length), result must be sorted and keep the number of ones.  The earlier
// symbolic version over {0,1,2} did not exhaust its path tree in 100 minutes.
func c17SortLong(L int) {
	a := make([]int, L)
	ones := 0
	for i := range a {
		a[i] = rt.Choice("a", 2)
		ones += a[i]
	}
	Sort(a)
	for i := 0; i < L; i++ {
		want := 0
		if i >= L-ones {
			want = 1
		}
		if a[i] != want {
			rt.Fail("ints.Sort (long): not the sorted 0/1 sequence")
			return
		}
	}
	rt.Reach("end")
}

func H_c17_sortlong_q() { c17SortLong(13) }
func H_c17_sortlong_t() { c17SortLong(14 + rt.Choice("len", 3)) }
