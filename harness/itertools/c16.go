package itertools

import (
	"github.com/Tom-Johnston/mamba/comb"
	rt "github.com/Tom-Johnston/mamba/zzverifrt"
)

// c16ColexOrder: Rank / Unrank agree with the order of CombinationsColex: the i-th subset
// yielded for (n, k) is Unrank(i, k), its Rank is i, and C(n, k) subsets are yielded.
func c16ColexOrder(N int) {
	n := rt.Choice("n", N+1)
	k := rt.Choice("k", n+2) // 0 .. n+1
	want := 0
	if k <= n {
		want = comb.Coeff(n, k)
	}
	it := CombinationsColex(n, k)
	i := 0
	for it.Next() {
		if i >= want {
			rt.Fail("CombinationsColex yields more than C(n,k) subsets")
			return
		}
		v := it.Value()
		rt.Check(len(v) == k, "CombinationsColex: subset of the wrong size")
		if len(v) != k {
			return
		}
		u := comb.Unrank(i, k)
		rt.Check(len(u) == k, "Unrank: wrong size")
		for j := 0; j < k && j < len(u); j++ {
			rt.Check(u[j] == v[j], "Unrank(i, k) is not the i-th subset of CombinationsColex")
		}
		rt.Check(comb.Rank(append([]int{}, v...)) == i, "Rank of the i-th subset of CombinationsColex is not i")
		i++
	}
	rt.Check(i == want, "CombinationsColex yields fewer than C(n,k) subsets")
	rt.Check(!it.Next(), "CombinationsColex: Next returns true after exhaustion")
	rt.Reach("end")
}

func H_c16_colexorder_q() { c16ColexOrder(6) }
func H_c16_colexorder_t() { c16ColexOrder(10) }
