package itertools

import (
	rt "github.com/Tom-Johnston/mamba/zzverifrt"
)

type c15Iter interface {
	Next() bool
	Value() []int
}

func c15Copy(a []int) []int { return append([]int{}, a...) }

func c15Eq(a, b []int) bool {
	if len(a) != len(b) {
		return false
	}
	for i := range a {
		if a[i] != b[i] {
			return false
		}
	}
	return true
}

// c15Drain collects the iterator's output (bounded) and checks sticky exhaustion.
func c15Drain(it c15Iter, limit int, what string) [][]int {
	var out [][]int
	for it.Next() {
		out = append(out, c15Copy(it.Value()))
		if len(out) > limit {
			rt.Fail(what + ": yields more objects than the family has")
			return out
		}
	}
	for k := 0; k < 3; k++ {
		rt.Check(!it.Next(), what+": Next returns true after exhaustion")
	}
	return out
}

func c15SameSeq(got, want [][]int, what string) {
	rt.Check(len(got) == len(want), what+": wrong number of objects")
	if len(got) != len(want) {
		return
	}
	for i := range got {
		rt.Check(c15Eq(got[i], want[i]), what+": wrong object or wrong order")
	}
}

func c15SameSet(got, want [][]int, what string) {
	rt.Check(len(got) == len(want), what+": wrong number of objects")
	for i := range got {
		for j := i + 1; j < len(got); j++ {
			rt.Check(!c15Eq(got[i], got[j]), what+": object yielded twice")
		}
		found := false
		for _, w := range want {
			if c15Eq(got[i], w) {
				found = true
				break
			}
		}
		rt.Check(found, what+": yields an object outside the family")
	}
}

// ---- reference enumerations (recursive, lexicographic)

func refCombos(n, k int) [][]int {
	var out [][]int
	var rec func(start int, cur []int)
	rec = func(start int, cur []int) {
		if len(cur) == k {
			out = append(out, c15Copy(cur))
			return
		}
		for v := start; v < n; v++ {
			rec(v+1, append(cur, v))
		}
	}
	if k >= 0 {
		rec(0, nil)
	}
	return out
}

func refColexLess(a, b []int) bool {
	for i := len(a) - 1; i >= 0; i-- {
		if a[i] != b[i] {
			return a[i] < b[i]
		}
	}
	return false
}

func refSortBy(xs [][]int, less func(a, b []int) bool) {
	for i := 1; i < len(xs); i++ {
		for j := i; j > 0 && less(xs[j], xs[j-1]); j-- {
			xs[j], xs[j-1] = xs[j-1], xs[j]
		}
	}
}

func refPerms(freq []int) [][]int { // lexicographic multiset permutations
	total := 0
	for _, f := range freq {
		total += f
	}
	left := c15Copy(freq)
	var out [][]int
	var rec func(cur []int)
	rec = func(cur []int) {
		if len(cur) == total {
			out = append(out, c15Copy(cur))
			return
		}
		for v := range left {
			if left[v] > 0 {
				left[v]--
				rec(append(cur, v))
				left[v]++
			}
		}
	}
	rec(nil)
	return out
}

func ones(n int) []int {
	f := make([]int, n)
	for i := range f {
		f[i] = 1
	}
	return f
}

func refProduct(n []int) [][]int {
	var out [][]int
	var rec func(cur []int)
	rec = func(cur []int) {
		if len(cur) == len(n) {
			out = append(out, c15Copy(cur))
			return
		}
		for v := 0; v < n[len(cur)]; v++ {
			rec(append(cur, v))
		}
	}
	rec(nil)
	return out
}

func refRGS(n int) [][]int { // restricted growth strings in lexicographic order
	var out [][]int
	var rec func(cur []int, max int)
	rec = func(cur []int, max int) {
		if len(cur) == n {
			out = append(out, c15Copy(cur))
			return
		}
		for v := 0; v <= max+1; v++ {
			m := max
			if v > m {
				m = v
			}
			rec(append(cur, v), m)
		}
	}
	rec(nil, -1)
	return out
}

func refIntParts(n int) [][]int { // descending parts, reverse lexicographic order
	var out [][]int
	var rec func(rem, max int, cur []int)
	rec = func(rem, max int, cur []int) {
		if rem == 0 {
			out = append(out, c15Copy(cur))
			return
		}
		for v := max; v >= 1; v-- {
			if v <= rem {
				rec(rem-v, v, append(cur, v))
			}
		}
	}
	rec(n, n, nil)
	return out
}

func refMultiCombos(m []int, k int) [][]int { // frequency vectors
	var out [][]int
	var rec func(cur []int, left int)
	rec = func(cur []int, left int) {
		if len(cur) == len(m) {
			if left == 0 {
				out = append(out, c15Copy(cur))
			}
			return
		}
		for c := 0; c <= m[len(cur)] && c <= left; c++ {
			rec(append(cur, c), left-c)
		}
	}
	rec(nil, k)
	return out
}

// ---- harnesses

func c15Combos(N int) {
	n := rt.Choice("n", N+1)
	k := rt.Choice("k", n+3) // 0..n+2 (k > n included)
	want := refCombos(n, k)
	got := c15Drain(Combinations(n, k), len(want), "Combinations")
	c15SameSeq(got, want, "Combinations")
	wc := refCombos(n, k)
	refSortBy(wc, refColexLess)
	it := CombinationsColex(n, k)
	gotc := c15Drain(it, len(wc), "CombinationsColex")
	c15SameSeq(gotc, wc, "CombinationsColex")
	rt.Reach("end")
}

func H_c15_combos_q() { c15Combos(5) }
func H_c15_combos_t() { c15Combos(7) }

type c15MC struct{ it *MultisetCombinationIterator }

func (w c15MC) Next() bool   { return w.it.Next() }
func (w c15MC) Value() []int { return w.it.FreqValue() }

func c15Multi(T, M int) {
	t := rt.Choice("types", T+1)
	m := make([]int, t)
	sum := 0
	for i := range m {
		m[i] = rt.Choice("m", M+1)
		sum += m[i]
	}
	k := rt.Choice("k", sum+2)
	want := refMultiCombos(m, k)
	it := MultisetCombinations(c15Copy(m), k)
	var got [][]int
	for it.Next() {
		f := c15Copy(it.FreqValue())
		got = append(got, f)
		// Value() is the multiset itself, ascending, consistent with FreqValue
		v := it.Value()
		rt.Check(len(v) == k, "MultisetCombinations: Value has wrong size")
		pos := 0
		for typ, c := range f {
			for j := 0; j < c; j++ {
				rt.Check(pos < len(v) && v[pos] == typ, "MultisetCombinations: Value disagrees with FreqValue")
				pos++
			}
		}
		if len(got) > len(want) {
			rt.Fail("MultisetCombinations: yields too many")
			return
		}
	}
	for j := 0; j < 3; j++ {
		rt.Check(!it.Next(), "MultisetCombinations: Next true after exhaustion")
	}
	c15SameSet(got, want, "MultisetCombinations")
	// permutations of the multiset m, lexicographic
	wp := refPerms(m)
	gp := c15Drain(MultisetPermutations(c15Copy(m)), len(wp), "MultisetPermutations")
	c15SameSeq(gp, wp, "MultisetPermutations")
	rt.Reach("end")
}

func H_c15_multi_q() { c15Multi(3, 2) }
func H_c15_multi_t() { c15Multi(4, 2) }

func c15Perms(N int) {
	n := rt.Choice("n", N+1)
	want := refPerms(ones(n))
	got := c15Drain(Permutations(n), len(want), "Permutations")
	c15SameSet(got, want, "Permutations")
	gl := c15Drain(LexicographicPermutations(n), len(want), "LexicographicPermutations")
	c15SameSeq(gl, want, "LexicographicPermutations")
	rt.Reach("end")
}

func H_c15_perms_q() { c15Perms(4) }
func H_c15_perms_t() { c15Perms(5) }

func c15Partitions(N int) {
	n := 1 + rt.Choice("n", N)
	rgs := refRGS(n)
	it := Partitions(n)
	cnt := 0
	for it.Next() {
		if cnt >= len(rgs) {
			rt.Fail("Partitions: yields too many")
			return
		}
		p := it.Value()
		// blocks in order of first element, contents ascending: rebuild the rgs
		got := make([]int, n)
		for i := range got {
			got[i] = -1
		}
		for b, blk := range p {
			rt.Check(len(blk) > 0, "Partitions: empty block")
			for j, e := range blk {
				ok := e >= 0 && e < n
				rt.Check(ok, "Partitions: element out of range")
				if !ok {
					return
				}
				rt.Check(got[e] == -1, "Partitions: element in two blocks")
				got[e] = b
				if j > 0 {
					rt.Check(blk[j-1] < e, "Partitions: block not ascending")
				}
			}
		}
		rt.Check(c15Eq(got, rgs[cnt]), "Partitions: wrong partition or wrong order")
		cnt++
	}
	rt.Check(cnt == len(rgs), "Partitions: wrong number of partitions")
	for j := 0; j < 3; j++ {
		rt.Check(!it.Next(), "Partitions: Next true after exhaustion")
	}
	rt.Reach("end")
}

func H_c15_partitions_q() { c15Partitions(5) }
func H_c15_partitions_t() { c15Partitions(7) }

func c15IntParts(N int) {
	n := rt.Choice("n", N+1)
	want := refIntParts(n)
	got := c15Drain(IntegerPartitions(n), len(want), "IntegerPartitions")
	c15SameSeq(got, want, "IntegerPartitions")
	rt.Reach("end")
}

func H_c15_intparts_q() { c15IntParts(8) }
func H_c15_intparts_t() { c15IntParts(12) }

func c15Product(F, M int) {
	f := rt.Choice("factors", F+1)
	n := make([]int, f)
	for i := range n {
		n[i] = rt.Choice("n", M+1)
	}
	want := refProduct(n)
	got := c15Drain(Product(n...), len(want), "Product")
	c15SameSeq(got, want, "Product")
	rt.Reach("end")
}

func H_c15_product_q() { c15Product(3, 3) }
func H_c15_product_t() { c15Product(4, 3) }

// ---- symbolic predicates: a lazily forked truth table over prefixes

type c15Table struct {
	keys   [][]int
	vals   []bool
	maxLen int // > 0: prefixes longer than this are always accepted (bounds the predicate class)
}

func (t *c15Table) ask(p []int) bool {
	if t.maxLen > 0 && len(p) > t.maxLen {
		return true
	}
	for i, k := range t.keys {
		if c15Eq(k, p) {
			return t.vals[i]
		}
	}
	v := rt.ConcreteBool(rt.Bool("accept"))
	t.keys = append(t.keys, c15Copy(p))
	t.vals = append(t.vals, v)
	return v
}

// allAccepted asks the table about every non-empty prefix (in order, stopping at the first rejection).
func (t *c15Table) allPrefixes(x []int, std bool) bool {
	for l := 1; l <= len(x); l++ {
		p := x[:l]
		if std {
			p = c15Standardise(p)
		}
		if !t.ask(p) {
			return false
		}
	}
	return true
}

func c15Standardise(p []int) []int {
	out := make([]int, len(p))
	for i := range p {
		r := 0
		for j := range p {
			if p[j] < p[i] {
				r++
			}
		}
		out[i] = r
	}
	return out
}

func c15RPProduct(F, M int) { c15RPProductL(F, M, 0) }

func c15RPProductL(F, M, maxLen int) {
	f := rt.Choice("factors", F+1)
	n := make([]int, f)
	for i := range n {
		n[i] = rt.Choice("n", M+1)
	}
	tab := &c15Table{maxLen: maxLen}
	it := RestrictedPrefixProduct(tab.ask, n...)
	all := refProduct(n)
	got := c15Drain(it, len(all), "RestrictedPrefixProduct")
	var want [][]int
	for _, x := range all {
		if tab.allPrefixes(x, false) {
			want = append(want, x)
		}
	}
	c15SameSeq(got, want, "RestrictedPrefixProduct")
	rt.Reach("end")
}

func H_c15_rpproduct_q() { c15RPProduct(2, 3) }
func H_c15_rpproduct_t()  { c15RPProduct(3, 2) }
func H_c15_rpproduct4_t() { c15RPProductL(4, 3, 2) }

func c15RPPerms(N int) { c15RPPermsL(rt.Choice("n", N+1), 0) }

func c15RPPermsL(n, maxLen int) {
	tab := &c15Table{maxLen: maxLen}
	all := refPerms(ones(n))
	got := c15Drain(RestrictedPrefixPermutations(n, tab.ask), len(all), "RestrictedPrefixPermutations")
	var want [][]int
	for _, x := range all {
		if tab.allPrefixes(x, false) {
			want = append(want, x)
		}
	}
	c15SameSeq(got, want, "RestrictedPrefixPermutations")
	rt.Reach("end")
}

func H_c15_rpperms_q() { c15RPPerms(3) }
func H_c15_rpperms_t() { c15RPPermsL(4, 2) }

func c15Pattern(N int) { c15PatternL(rt.Choice("n", N+1), 0) }

func c15PatternL(n, maxLen int) {
	tab := &c15Table{maxLen: maxLen}
	all := refPerms(ones(n))
	got := c15Drain(PermutationsByPattern(n, tab.ask), len(all), "PermutationsByPattern")
	var want [][]int
	for _, x := range all {
		if tab.allPrefixes(x, true) {
			want = append(want, x)
		}
	}
	c15SameSet(got, want, "PermutationsByPattern")
	rt.Check(len(got) == len(want), "PermutationsByPattern: wrong number of permutations")
	rt.Reach("end")
}

func H_c15_pattern_q() { c15Pattern(3) }
func H_c15_pattern_t() { c15PatternL(4, 3) }

func c15Topo(N int) {
	n := rt.Choice("n", N+1)
	rel := make([][]bool, n)
	for i := range rel {
		rel[i] = make([]bool, n)
	}
	for i := 0; i < n; i++ {
		for j := i + 1; j < n; j++ {
			rel[i][j] = rt.ConcreteBool(rt.Bool("less"))
		}
	}
	// a sub-order of the natural order: transitive
	for i := 0; i < n; i++ {
		for j := i + 1; j < n; j++ {
			for k := j + 1; k < n; k++ {
				if rel[i][j] && rel[j][k] {
					rt.Assume(rel[i][k])
				}
			}
		}
	}
	less := func(i, j int) bool {
		if i < 0 || j < 0 || i >= n || j >= n || i >= j {
			return false
		}
		return rel[i][j]
	}
	it := TopologicalSorts(n, less)
	all := refPerms(ones(n))
	var got [][]int
	for it.Next() {
		v := c15Copy(it.Value())
		inv := it.InverseValue()
		rt.Check(len(inv) == n, "TopologicalSorts: InverseValue length")
		for pos, e := range v {
			ok := e >= 0 && e < n
			rt.Check(ok, "TopologicalSorts: element out of range")
			if !ok {
				return
			}
			rt.Check(inv[e] == pos, "TopologicalSorts: InverseValue is not the inverse of Value")
		}
		got = append(got, v)
		if len(got) > len(all) {
			rt.Fail("TopologicalSorts: yields too many")
			return
		}
	}
	for j := 0; j < 3; j++ {
		rt.Check(!it.Next(), "TopologicalSorts: Next true after exhaustion")
	}
	var want [][]int
	for _, x := range all {
		pos := make([]int, n)
		for p, e := range x {
			pos[e] = p
		}
		ok := true
		for i := 0; i < n; i++ {
			for j := i + 1; j < n; j++ {
				if rel[i][j] && pos[i] > pos[j] {
					ok = false
				}
			}
		}
		if ok {
			want = append(want, x)
		}
	}
	c15SameSet(got, want, "TopologicalSorts")
	rt.Reach("end")
}

func H_c15_topo_q() { c15Topo(4) }
func H_c15_topo_t() { c15Topo(5) }
