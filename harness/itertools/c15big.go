package itertools

import (
	rt "github.com/Tom-Johnston/mamba/zzverifrt"
)

// Streaming checks at larger parameters: every iterator call here has concrete parameters,
// so each parameter set is one path; the yielded objects are compared one by one with a
// textbook successor function, which keeps the cost linear in the size of the family.

// bigNextPerm: lexicographic successor of a sequence (multisets allowed); false at the last one.
func bigNextPerm(a []int) bool {
	i := len(a) - 2
	for i >= 0 && a[i] >= a[i+1] {
		i--
	}
	if i < 0 {
		return false
	}
	j := len(a) - 1
	for a[j] <= a[i] {
		j--
	}
	a[i], a[j] = a[j], a[i]
	for l, r := i+1, len(a)-1; l < r; l, r = l+1, r-1 {
		a[l], a[r] = a[r], a[l]
	}
	return true
}

func bigStream(it c15Iter, first []int, next func([]int) bool, what string) {
	cur := c15Copy(first)
	more := true
	count := 0
	for it.Next() {
		if !more {
			rt.Fail(what + ": yields more objects than the family has")
			return
		}
		if !c15Eq(it.Value(), cur) {
			rt.Fail(what + ": wrong object or wrong order")
			return
		}
		count++
		more = next(cur)
	}
	rt.Check(!more, what+": stops before the family is exhausted")
	for k := 0; k < 3; k++ {
		rt.Check(!it.Next(), what+": Next returns true after exhaustion")
	}
}

func c15PermsBig(lo, hi int) {
	n := lo + rt.Choice("n", hi-lo+1)
	id := make([]int, n)
	for i := range id {
		id[i] = i
	}
	bigStream(LexicographicPermutations(n), id, bigNextPerm, "LexicographicPermutations")
	// Permutations (any order): every permutation exactly once, by Lehmer rank
	fact := 1
	for i := 2; i <= n; i++ {
		fact *= i
	}
	seen := make([]bool, fact)
	it := Permutations(n)
	count := 0
	for it.Next() {
		v := it.Value()
		if len(v) != n || count >= fact {
			rt.Fail("Permutations: wrong length or too many permutations")
			return
		}
		r := 0
		used := make([]bool, n)
		for i := 0; i < n; i++ {
			x := v[i]
			if x < 0 || x >= n || used[x] {
				rt.Fail("Permutations: yields something that is not a permutation")
				return
			}
			used[x] = true
			less := 0
			for y := 0; y < x; y++ {
				if !used[y] {
					less++
				}
			}
			r = r*(n-i) + less
		}
		if seen[r] {
			rt.Fail("Permutations: permutation yielded twice")
			return
		}
		seen[r] = true
		count++
	}
	rt.Check(count == fact, "Permutations: wrong number of permutations")
	rt.Check(!it.Next(), "Permutations: Next returns true after exhaustion")
	rt.Reach("end")
}

func H_c15_permsbig_q() { c15PermsBig(5, 8) }
func H_c15_permsbig_t() { c15PermsBig(9, 9) }

// c15MultiPermsBig: multisets of total size up to S (every frequency vector over <= T types).
func c15MultiPermsBig(T, S int) {
	t := 1 + rt.Choice("types", T)
	freq := make([]int, t)
	left := S
	for i := range freq {
		freq[i] = rt.Choice("f", left+1)
		left -= freq[i]
	}
	var first []int
	for v, f := range freq {
		for k := 0; k < f; k++ {
			first = append(first, v)
		}
	}
	bigStream(MultisetPermutations(c15Copy(freq)), first, bigNextPerm, "MultisetPermutations")
	rt.Reach("end")
}

func H_c15_multipermsbig_q() { c15MultiPermsBig(4, 9) }
func H_c15_multipermsbig_t() { c15MultiPermsBig(5, 10) }

func c15CombosBig(lo, hi int) {
	n := lo + rt.Choice("n", hi-lo+1)
	k := rt.Choice("k", n+1)
	first := make([]int, k)
	for i := range first {
		first[i] = i
	}
	lexNext := func(c []int) bool {
		i := k - 1
		for i >= 0 && c[i] == n-k+i {
			i--
		}
		if i < 0 {
			return false
		}
		c[i]++
		for j := i + 1; j < k; j++ {
			c[j] = c[j-1] + 1
		}
		return true
	}
	colexNext := func(c []int) bool {
		// smallest i whose element can grow without meeting the next one
		for i := 0; i < k; i++ {
			lim := n
			if i+1 < k {
				lim = c[i+1]
			}
			if c[i]+1 < lim {
				c[i]++
				for j := 0; j < i; j++ {
					c[j] = j
				}
				return true
			}
		}
		return false
	}
	bigStream(Combinations(n, k), first, lexNext, "Combinations")
	bigStream(CombinationsColex(n, k), first, colexNext, "CombinationsColex")
	rt.Reach("end")
}

func H_c15_combosbig_q() { c15CombosBig(6, 14) }
func H_c15_combosbig_t() { c15CombosBig(15, 18) }

// c15PartitionsBig: set partitions as restricted growth strings, streamed.
func c15PartitionsBig(lo, hi int) {
	n := lo + rt.Choice("n", hi-lo+1)
	rgs := make([]int, n)
	next := func() bool {
		for i := n - 1; i > 0; i-- {
			mx := 0
			for j := 0; j < i; j++ {
				if rgs[j] > mx {
					mx = rgs[j]
				}
			}
			if rgs[i] <= mx {
				rgs[i]++
				for j := i + 1; j < n; j++ {
					rgs[j] = 0
				}
				return true
			}
		}
		return false
	}
	it := Partitions(n)
	more := true
	for it.Next() {
		if !more {
			rt.Fail("Partitions: yields too many")
			return
		}
		p := it.Value()
		got := make([]int, n)
		for i := range got {
			got[i] = -1
		}
		for b, blk := range p {
			if len(blk) == 0 {
				rt.Fail("Partitions: empty block")
				return
			}
			for j, e := range blk {
				if e < 0 || e >= n || got[e] != -1 || (j > 0 && blk[j-1] >= e) {
					rt.Fail("Partitions: not a partition into ascending blocks")
					return
				}
				got[e] = b
			}
		}
		if !c15Eq(got, rgs) {
			rt.Fail("Partitions: wrong partition or wrong order")
			return
		}
		more = next()
	}
	rt.Check(!more, "Partitions: stops before the family is exhausted")
	rt.Check(!it.Next(), "Partitions: Next true after exhaustion")
	rt.Reach("end")
}

func H_c15_partitionsbig_q() { c15PartitionsBig(6, 9) }
func H_c15_partitionsbig_t() { c15PartitionsBig(10, 11) }

func c15IntPartsBig(lo, hi int) {
	n := lo + rt.Choice("n", hi-lo+1)
	want := refIntParts(n)
	it := IntegerPartitions(n)
	i := 0
	for it.Next() {
		if i >= len(want) || !c15Eq(it.Value(), want[i]) {
			rt.Fail("IntegerPartitions: wrong partition, wrong order or too many")
			return
		}
		i++
	}
	rt.Check(i == len(want), "IntegerPartitions: wrong number of partitions")
	rt.Check(!it.Next(), "IntegerPartitions: Next true after exhaustion")
	rt.Reach("end")
}

func H_c15_intpartsbig_q() { c15IntPartsBig(9, 32) }
func H_c15_intpartsbig_t() { c15IntPartsBig(33, 45) }
