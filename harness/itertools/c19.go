package itertools

import (
	rt "github.com/Tom-Johnston/mamba/zzverifrt"
)

// c19Iter: two separate iterators of the same kind advanced alternately.
func c19Iter(N int) {
	n := rt.Choice("n", N+1)
	kind := rt.Choice("kind", 8)
	mk := func() c15Iter {
		switch kind {
		case 0:
			return Combinations(n, n/2)
		case 1:
			return CombinationsColex(n, n/2)
		case 2:
			return Permutations(n)
		case 3:
			return LexicographicPermutations(n)
		case 4:
			return MultisetPermutations([]int{1, n % 3, 1})
		case 5:
			return IntegerPartitions(n)
		case 6:
			return Product(2, n%3+1)
		default:
			return TopologicalSorts(n, func(i, j int) bool { return i+1 == j && i%2 == 0 })
		}
	}
	var solo [][]int
	s := mk()
	for s.Next() && len(solo) < 200 {
		solo = append(solo, c15Copy(s.Value()))
	}
	rt.ActorBegin(1)
	a := mk()
	rt.ActorEnd()
	rt.ActorBegin(2)
	b := mk()
	rt.ActorEnd()
	var ga, gb [][]int
	da, db := false, false
	for (!da || !db) && len(ga)+len(gb) < 500 {
		if !da {
			rt.ActorBegin(1)
			if a.Next() && len(ga) < 200 {
				ga = append(ga, c15Copy(a.Value()))
			} else {
				da = true
			}
			rt.ActorEnd()
		}
		if !db {
			rt.ActorBegin(2)
			if b.Next() && len(gb) < 200 {
				gb = append(gb, c15Copy(b.Value()))
			} else {
				db = true
			}
			rt.ActorEnd()
		}
	}
	rt.FootprintCheck()
	rt.Check(len(ga) == len(solo) && len(gb) == len(solo), "interleaved iterators yield a different number of objects than alone")
	for i := range solo {
		if i < len(ga) && i < len(gb) {
			rt.Check(c15Eq(ga[i], solo[i]) && c15Eq(gb[i], solo[i]), "interleaved iterators differ from a solo run")
		}
	}
	rt.Reach("end")
}

func H_c19_iter_q() { c19Iter(4) }
func H_c19_iter_t() { c19Iter(5) }
