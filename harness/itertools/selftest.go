package itertools

import (
	rt "github.com/Tom-Johnston/mamba/zzverifrt"
)

// H_selftest_itertools: translator validation on the parameters used in itertools/*_test.go.
func H_selftest_itertools() {
	hash := func(xs []int) int {
		h := 17
		for _, x := range xs {
			h = h*31 + x + 7
		}
		return h
	}
	drain := func(name string, it c15Iter) {
		n := 0
		for it.Next() && n < 5000 {
			rt.Digest(name, hash(it.Value()))
			n++
		}
		rt.Digest(name+".count", n)
	}
	drain("comb", Combinations(5, 2))
	drain("colex", CombinationsColex(6, 3))
	drain("perm", Permutations(4))
	drain("lex", LexicographicPermutations(4))
	drain("mperm", MultisetPermutations([]int{1, 2, 1}))
	drain("mperm2", MultisetPermutations([]int{2, 2, 2}))
	drain("intpart", IntegerPartitions(8))
	drain("product", Product(2, 3, 2))
	drain("topo", TopologicalSorts(5, func(i, j int) bool { return j == i+2 }))
	drain("rpp", RestrictedPrefixPermutations(4, func(p []int) bool { return len(p) < 2 || p[len(p)-1] != p[len(p)-2]+1 }))
	drain("pattern", PermutationsByPattern(4, func(p []int) bool { return len(p) < 3 || !(p[0] < p[1] && p[1] < p[2]) }))
	drain("rpprod", RestrictedPrefixProduct(func(p []int) bool {
		s := 0
		for _, x := range p {
			s += x
		}
		return s <= 3
	}, 3, 3, 3))
	mc := MultisetCombinations([]int{4, 3, 3, 2}, 5)
	n := 0
	for mc.Next() {
		rt.Digest("mcomb", hash(mc.Value()))
		n++
	}
	rt.Digest("mcomb.count", n)
	pi := Partitions(4)
	n = 0
	for pi.Next() {
		for _, b := range pi.Value() {
			rt.Digest("part", hash(b))
		}
		n++
	}
	rt.Digest("part.count", n)
	rt.Reach("end")
}
