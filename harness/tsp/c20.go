package tsp

import (
	"errors"

	rt "github.com/Tom-Johnston/mamba/zzverifrt"
)

var c20ErrFault = errors.New("injected write failure")

// c20W is an io.Writer that fails at its failAt-th Write (1-based; 0 = never),
// transiently or permanently, after accepting `short` bytes of that call.
type c20W struct {
	buf    []byte
	calls  int
	failAt int
	perm   bool
	short  int
	failed bool
}

func (w *c20W) Write(p []byte) (int, error) {
	w.calls++
	if w.failAt != 0 && (w.calls == w.failAt || (w.perm && w.calls > w.failAt)) {
		w.failed = true
		n := w.short
		if n > len(p) {
			n = len(p)
		}
		w.buf = append(w.buf, p[:n]...)
		return n, c20ErrFault
	}
	w.buf = append(w.buf, p...)
	return len(p), nil
}

var c20Values = []int{0, -7, 5, 123456, int(^uint(0) >> 1), -int(^uint(0)>>1) - 1}

type c20Call struct{ i, j int }

// c20Weights: lazily forked weight table over c20Values; records every call.
type c20Table struct {
	n     int
	vals  map[c20Call]int
	calls []c20Call
	nv    int
}

func (t *c20Table) weight(i, j int) int {
	t.calls = append(t.calls, c20Call{i, j})
	k := c20Call{i, j}
	if v, ok := t.vals[k]; ok {
		return v
	}
	v := c20Values[rt.Choice("w", t.nv)]
	t.vals[k] = v
	return v
}

func c20Fields(line []byte) [][]byte {
	var out [][]byte
	cur := []byte{}
	for _, b := range line {
		if b == ' ' || b == '\t' {
			if len(cur) > 0 {
				out = append(out, cur)
				cur = []byte{}
			}
		} else {
			cur = append(cur, b)
		}
	}
	if len(cur) > 0 {
		out = append(out, cur)
	}
	return out
}

func c20Atoi(f []byte) (int, bool) {
	if len(f) == 0 {
		return 0, false
	}
	neg := false
	k := 0
	if f[0] == '-' {
		neg = true
		k = 1
	}
	if k >= len(f) {
		return 0, false
	}
	v := 0
	for ; k < len(f); k++ {
		if f[k] < '0' || f[k] > '9' {
			return 0, false
		}
		d := int(f[k] - '0')
		if neg {
			v = v*10 - d
		} else {
			v = v*10 + d
		}
	}
	return v, true
}

func c20Lines(b []byte) [][]byte {
	var out [][]byte
	cur := []byte{}
	for _, c := range b {
		if c == '\n' {
			out = append(out, cur)
			cur = []byte{}
		} else {
			cur = append(cur, c)
		}
	}
	if len(cur) > 0 {
		out = append(out, append(cur, '!')) // unterminated last line marker
	}
	return out
}

func c20Itoa(n int) string { return rt.Itoa(n) }

func c20Format(N, NV int) { c20FormatN(rt.Choice("n", N+1), NV) }

func c20FormatN(n, NV int) {
	tab := &c20Table{n: n, vals: map[c20Call]int{}, nv: NV}
	w := &c20W{}
	err := LIB(w, n, tab.weight)
	rt.Check(err == nil, "LIB failed on a writer that never fails")
	// weights called exactly with 0 <= j < i < n, row by row
	k := 0
	for i := 0; i < n; i++ {
		for j := 0; j < i; j++ {
			ok := k < len(tab.calls) && tab.calls[k].i == i && tab.calls[k].j == j
			rt.Check(ok, "weights not called with exactly the pairs j < i, row by row")
			k++
		}
	}
	rt.Check(k == len(tab.calls), "weights called more often than once per pair j < i")
	lines := c20Lines(w.buf)
	header := []string{"TYPE: TSP", "DIMENSION: " + c20Itoa(n), "DISPLAY_DATA_TYPE: NO_DISPLAY", "EDGE_WEIGHT_TYPE: EXPLICIT", "EDGE_WEIGHT_FORMAT: LOWER_DIAG_ROW", "EDGE_WEIGHT_SECTION"}
	rt.Check(len(lines) == len(header)+n+1, "wrong number of lines")
	if len(lines) != len(header)+n+1 {
		return
	}
	for h := range header {
		rt.Check(string(lines[h]) == header[h], "header line wrong")
	}
	for i := 0; i < n; i++ {
		f := c20Fields(lines[len(header)+i])
		rt.Check(len(f) == i+1, "row has the wrong number of entries")
		if len(f) != i+1 {
			return
		}
		for j := 0; j <= i; j++ {
			v, ok := c20Atoi(f[j])
			rt.Check(ok, "row entry is not an integer")
			want := 0
			if j < i {
				want = tab.vals[c20Call{i, j}]
			}
			rt.Check(v == want, "row entry differs from weights(i, j)")
		}
	}
	rt.Check(string(lines[len(lines)-1]) == "EOF", "missing EOF trailer")
	rt.Reach("end")
}

func H_c20_format_q() { c20Format(4, 3) }
func H_c20_format_t() { c20Format(4, 6) }
func H_c20_format5_t() {
	// n = 5 has 10 weights: two values only (2^10 tables)
	c20FormatN(5, 2)
}

// c20Faults: a write failure at any position must surface as a non-nil error.
func c20Faults(N int) {
	n := rt.Choice("n", N+1)
	w := &c20W{}
	w.failAt = rt.IntIn("failAt", 1, 64)
	w.perm = rt.Choice("permanent", 2) == 1
	w.short = rt.Choice("short", 4) // 0, 1 or 2 bytes accepted by the failing call; 3: all of them
	if w.short == 3 {
		w.short = 1 << 30 // (len(p), err): the data went out but e.g. a sync failed
	}
	err := LIB(w, n, func(i, j int) int { return 10*i + j })
	if w.failed {
		rt.Check(err != nil, "a Write failed but LIB returned nil")
	} else {
		rt.Check(err == nil, "LIB failed although no Write failed")
	}
	rt.Reach("end")
}

func H_c20_faults_q() { c20Faults(3) }
func H_c20_faults_t() { c20Faults(5) }

// c20FaultsBig: larger instances (the weight section spans several tabwriter cells and any
// internal buffering/flushing policy), one transient failure at a symbolic position.
func c20FaultsBig(ns []int) {
	n := ns[rt.Choice("n", len(ns))]
	w := &c20W{}
	w.failAt = rt.IntIn("failAt", 1, 4000)
	w.perm = false
	w.short = 0
	if rt.Choice("full", 2) == 1 {
		w.short = 1 << 30
	}
	err := LIB(w, n, func(i, j int) int { return 10*i + j })
	if w.failed {
		rt.Check(err != nil, "a Write failed but LIB returned nil")
	} else {
		rt.Check(err == nil, "LIB failed although no Write failed")
	}
	rt.Reach("end")
}

func H_c20_faultsbig_q() { c20FaultsBig([]int{16, 17}) }
func H_c20_faultsbig_t() { c20FaultsBig([]int{16, 17, 32, 33, 40}) }
