package dawg

import (
	rt "github.com/Tom-Johnston/mamba/zzverifrt"
)

// dwWords draws a strictly increasing list of at most W words of length <= L
// with fully symbolic bytes (alphabet = all 256 bytes).
func dwWords(W, L int) [][]byte {
	w := rt.Choice("nwords", W+1)
	words := make([][]byte, w)
	for i := range words {
		l := rt.Choice("wlen", L+1)
		words[i] = rt.Bytes("w", l)
		if i > 0 {
			rt.Assume(dwLess(words[i-1], words[i]))
		}
	}
	return words
}

// dwLess forks on the first difference (harness-side lexicographic order).
func dwLess(a, b []byte) bool {
	for i := 0; i < len(a) && i < len(b); i++ {
		if a[i] != b[i] {
			return a[i] < b[i]
		}
	}
	return len(a) < len(b)
}

func dwEq(a, b []byte) bool {
	if len(a) != len(b) {
		return false
	}
	for i := range a {
		if a[i] != b[i] {
			return false
		}
	}
	return true
}

// dwEqF is the branch-free equality formula.
func dwEqF(a, b []byte) bool {
	if len(a) != len(b) {
		return false
	}
	r := true
	for i := range a {
		r = rt.And(r, a[i] == b[i])
	}
	return r
}

func dwCopyWords(ws [][]byte) [][]byte {
	out := make([][]byte, len(ws))
	for i, w := range ws {
		out[i] = make([]byte, len(w))
		copy(out[i], w)
	}
	return out
}

// dwMinimalStates counts the states of the minimal DFA (without dead state)
// of the finite language `words`: distinct right languages of its prefixes.
func dwMinimalStates(words [][]byte) int {
	type pref struct{ w, l int }
	var prefs []pref
	// distinct prefixes
	for i, w := range words {
		for l := 0; l <= len(w); l++ {
			dup := false
			for _, q := range prefs {
				if q.l == l && dwEq(words[q.w][:q.l], w[:l]) {
					dup = true
					break
				}
			}
			if !dup {
				prefs = append(prefs, pref{i, l})
			}
		}
	}
	if len(words) == 0 {
		return 1 // the root alone
	}
	right := func(p pref) [][]byte {
		var r [][]byte
		for _, w := range words {
			if len(w) >= p.l && dwEq(w[:p.l], words[p.w][:p.l]) {
				r = append(r, w[p.l:])
			}
		}
		return r
	}
	var classes [][][]byte
	for _, p := range prefs {
		r := right(p)
		found := false
		for _, c := range classes {
			if len(c) != len(r) {
				continue
			}
			same := true
			for k := range c {
				if !dwEq(c[k], r[k]) {
					same = false
					break
				}
			}
			if same {
				found = true
				break
			}
		}
		if !found {
			classes = append(classes, r)
		}
	}
	return len(classes)
}

// dwCheckIndex: d is an exact, rank-indexed index of words (probe of symbolic content).
func dwCheckIndex(d *Dawg, words [][]byte, maxProbe int, what string) {
	rt.Check(d.NumberOfWords() == len(words), what+": NumberOfWords wrong")
	pl := rt.Choice("probelen", maxProbe+1)
	probe := rt.Bytes("probe", pl)
	probe0 := make([]byte, pl)
	copy(probe0, probe)
	idx, ok := d.Lookup(probe)
	want := false
	wantIdx := 0
	for r, w := range words {
		e := dwEqF(w, probe0)
		want = rt.Or(want, e)
		wantIdx = rt.IteInt(e, r, wantIdx)
	}
	rt.Check(ok == want, what+": Lookup membership wrong")
	if ok {
		rt.Check(idx == wantIdx, what+": Lookup rank wrong")
	}
}

func c12New(W, L int) {
	words := dwWords(W, L)
	orig := dwCopyWords(words)
	var d *Dawg
	var err error
	p, msg := rt.Panics(func() { d, err = New(words) })
	rt.Check(!p, "dawg.New panicked on a sorted word list: "+msg)
	if p {
		return
	}
	rt.Check(err == nil, "dawg.New rejected a strictly increasing list")
	if err != nil {
		return
	}
	dwCheckIndex(d, orig, L+1, "New")
	rt.Check(d.numberOfNodes() == dwMinimalStates(orig), "automaton is not minimal (node count differs from Myhill-Nerode count)")
	rt.Reach("end")
}

func H_c12_new_q() { c12New(3, 2) }
func H_c12_new_t() { c12New(4, 3) }

// c12Abc: EVERY set of words of length <= L over the first A letters (concrete words,
// one path per subset of the A^0+..+A^L candidates), probe of symbolic content.
func c12Abc(A, L int) {
	var all [][]byte
	var gen func(prefix []byte)
	gen = func(prefix []byte) {
		all = append(all, append([]byte{}, prefix...))
		if len(prefix) == L {
			return
		}
		for c := 0; c < A; c++ {
			gen(append(prefix, byte('a'+c)))
		}
	}
	gen(nil) // preorder == lexicographic order
	var words [][]byte
	for _, w := range all {
		if rt.Choice("in", 2) == 1 {
			words = append(words, w)
		}
	}
	orig := dwCopyWords(words)
	var d *Dawg
	var err error
	p, msg := rt.Panics(func() { d, err = New(words) })
	rt.Check(!p, "dawg.New panicked on a sorted word list: "+msg)
	if p {
		return
	}
	rt.Check(err == nil, "dawg.New rejected a strictly increasing list")
	if err != nil {
		return
	}
	rt.Check(d.NumberOfWords() == len(orig), "New: NumberOfWords wrong")
	// every candidate word, and every candidate extended by one more letter (incl. one outside the alphabet)
	rank := 0
	for _, w := range all {
		in := rank < len(orig) && dwEq(orig[rank], w)
		idx, ok := d.Lookup(append([]byte{}, w...))
		rt.Check(ok == in, "New: Lookup membership wrong")
		if ok && in {
			rt.Check(idx == rank, "New: Lookup rank wrong")
		}
		if in {
			rank++
		}
		if len(w) == L {
			for c := 0; c <= A; c++ {
				_, ok := d.Lookup(append(append([]byte{}, w...), byte('a'+c)))
				rt.Check(!ok, "New: Lookup accepts a word longer than every word of the set")
			}
		}
	}
	_, ok := d.Lookup([]byte{byte('a' + A)})
	rt.Check(!ok, "New: Lookup accepts a letter outside the alphabet")
	rt.Check(d.numberOfNodes() == dwMinimalStates(orig), "automaton is not minimal (node count differs from Myhill-Nerode count)")
	rt.Reach("end")
}

func H_c12_abc_q() { c12Abc(3, 2) }
func H_c12_abc_t() { c12Abc(2, 3) }

// c12Builder: arbitrary Add sequences; rejected adds must not change what is built.
func c12Builder(K, L int) {
	var db Builder
	// the builder may have been used before and re-initialised: the build that follows must
	// not depend on that
	switch rt.Choice("reuse", 3) {
	case 1:
		db.Add(rt.Bytes("old", rt.Choice("oldlen", 2)))
		db.Initialise()
	case 2:
		db.Add(rt.Bytes("old", rt.Choice("oldlen", 2)))
		db.Finish()
		db.Initialise()
	}
	k := rt.Choice("nadds", K+1)
	var accepted [][]byte
	for i := 0; i < k; i++ {
		l := rt.Choice("wlen", L+1)
		w := rt.Bytes("w", l)
		wc := make([]byte, l)
		copy(wc, w)
		var err error
		p, msg := rt.Panics(func() { err = db.Add(w) })
		rt.Check(!p, "Builder.Add panicked: "+msg)
		if p {
			return
		}
		inOrder := len(accepted) == 0 || dwLess(accepted[len(accepted)-1], wc)
		if inOrder {
			rt.Check(err == nil, "in-order Add rejected")
			accepted = append(accepted, wc)
		} else {
			rt.Check(err != nil, "out-of-order or duplicate Add accepted")
		}
	}
	var d *Dawg
	var err error
	p, msg := rt.Panics(func() { d, err = db.Finish() })
	rt.Check(!p, "Builder.Finish panicked: "+msg)
	if p {
		return
	}
	rt.Check(err == nil, "Finish failed")
	if err != nil {
		return
	}
	dwCheckIndex(d, accepted, L+1, "Builder")
	rt.Check(d.numberOfNodes() == dwMinimalStates(accepted), "Builder: automaton is not minimal")
	rt.Reach("end")
}

func H_c12_builder_q() { c12Builder(3, 2) }
func H_c12_builder_t() { c12Builder(4, 2) }
