package dawg

import (
	rt "github.com/Tom-Johnston/mamba/zzverifrt"
)

// c19Queries: Lookup / Search with separate searchers on ONE shared Dawg, and two separate Builders.
func c19Queries(W, L int) {
	words := dwWords(W, L)
	d, err := New(dwCopyWords(words))
	if err != nil {
		rt.Fail("New failed")
		return
	}
	probeA := rt.Bytes("probeA", rt.Choice("la", L+1))
	patB := rt.Bytes("patB", rt.Choice("lb", L+1))
	blank := rt.Byte("blank")
	rt.ActorBegin(1)
	idx, ok := d.Lookup(probeA)
	_, ids1 := d.Search(NewAnagramSearcher(append([]byte{}, probeA...), blank))
	rt.ActorEnd()
	rt.ActorBegin(2)
	_, ids := d.Search(NewPatternSearcher(append([]byte{}, patB...), blank))
	nw := d.NumberOfWords()
	rt.ActorEnd()
	// a third actor reads every cell of the shared Dawg: any write by a query conflicts with it
	rt.ActorBegin(3)
	d.GobEncode()
	rt.ActorEnd()
	rt.FootprintCheck()
	soloIdx, soloOk := d.Lookup(probeA)
	_, soloIds := d.Search(NewPatternSearcher(append([]byte{}, patB...), blank))
	_ = ids1
	rt.Check(ok == soloOk && (!ok || idx == soloIdx), "Lookup differs from a solo run")
	rt.Check(len(ids) == len(soloIds) && nw == len(words), "Search differs from a solo run")
	rt.Reach("end")
}

func H_c19_queries_q() { c19Queries(2, 2) }
func H_c19_queries_t() { c19Queries(3, 2) }

func c19Builders(W, L int) {
	w1 := dwWords(W, L)
	w2 := dwWords(W, L)
	rt.ActorBegin(1)
	d1, e1 := New(w1)
	rt.ActorEnd()
	rt.ActorBegin(2)
	d2, e2 := New(w2)
	rt.ActorEnd()
	rt.FootprintCheck()
	rt.Check(e1 == nil && e2 == nil, "New failed")
	if e1 == nil && e2 == nil {
		rt.Check(d1.NumberOfWords() == len(w1) && d2.NumberOfWords() == len(w2), "builders interfered")
	}
	rt.Reach("end")
}

func H_c19_builders_q() { c19Builders(2, 1) }
func H_c19_builders_t() { c19Builders(2, 2) }
