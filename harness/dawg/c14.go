package dawg

import (
	"bytes"

	rt "github.com/Tom-Johnston/mamba/zzverifrt"
)

// H_c14_varint: decode(encode(x)) == x for every uint64, with the documented widths.
func H_c14_varint() {
	x := rt.Uint64("x")
	buf := make([]byte, 9)
	enc := encodeUint64(x, buf)
	n := len(enc)
	rt.Check(n >= 1 && n <= 9, "encodeUint64: bad length")
	if rt.ConcreteBool(x <= 127) {
		rt.Check(n == 1 && enc[0] == byte(x), "encodeUint64: small value must be one byte")
	} else {
		rt.Check(n >= 2, "encodeUint64: large value in one byte")
		rt.Check(int(enc[0]) == 128+n-1, "encodeUint64: first byte is not 128+bytelen")
		rt.Check(enc[1] != 0, "encodeUint64: not minimal (leading zero byte)")
	}
	cp := make([]byte, n)
	copy(cp, enc)
	buf2 := make([]byte, 9)
	y, w, err := decodeUint64(bytes.NewReader(cp), buf2)
	rt.Check(err == nil, "decodeUint64 failed on an encoding")
	rt.Check(y == x, "decodeUint64(encodeUint64(x)) != x")
	rt.Check(w == n, "decodeUint64 width differs from encoded length")
	rt.Reach("end")
}

// dwSame: d2 is behaviourally identical to d (word count, ranks via symbolic probe, node count).
func c14Roundtrip(W, L int) {
	words := dwWords(W, L)
	orig := dwCopyWords(words)
	d, err := New(words)
	if err != nil {
		rt.Fail("New failed")
		return
	}
	var enc []byte
	p, msg := rt.Panics(func() { enc, err = d.GobEncode() })
	rt.Check(!p && err == nil, "GobEncode failed: "+msg)
	if p || err != nil {
		return
	}
	enc0 := make([]byte, len(enc))
	copy(enc0, enc)
	d2 := new(Dawg)
	p, msg = rt.Panics(func() { err = d2.GobDecode(enc) })
	rt.Check(!p, "GobDecode panicked: "+msg)
	if p {
		return
	}
	rt.Check(err == nil, "GobDecode failed on GobEncode output")
	if err != nil {
		return
	}
	// the caller recycles its buffer: the decoded automaton must not live in it
	for i := range enc {
		enc[i] = rt.Byte("scribble")
	}
	dwCheckIndex(d2, orig, L+1, "decoded")
	rt.Check(d2.numberOfNodes() == d.numberOfNodes(), "decoded automaton has a different node count")
	enc2, err := d2.GobEncode()
	rt.Check(err == nil, "re-encode failed")
	rt.Check(len(enc2) == len(enc0), "re-encoding has a different length")
	if len(enc2) == len(enc0) {
		for i := range enc2 {
			rt.Check(enc2[i] == enc0[i], "re-encoding differs")
		}
	}
	rt.Reach("end")
}

// c14Reuse: decoding into a receiver that already holds another automaton (decoded
// earlier or built by New) must give exactly what decoding into a fresh receiver gives.
func c14Reuse(W, L int) {
	first := dwWords(W, L)
	d1, err := New(first)
	if err != nil {
		rt.Fail("New failed")
		return
	}
	words := dwWords(W, L)
	orig := dwCopyWords(words)
	d, err := New(words)
	if err != nil {
		rt.Fail("New failed")
		return
	}
	enc, err := d.GobEncode()
	rt.Check(err == nil, "GobEncode failed")
	if err != nil {
		return
	}
	enc0 := append([]byte{}, enc...)
	recv := d1
	if rt.Choice("receiver", 2) == 1 {
		enc1, err := d1.GobEncode()
		rt.Check(err == nil, "GobEncode failed")
		if err != nil {
			return
		}
		recv = new(Dawg)
		if recv.GobDecode(enc1) != nil {
			rt.Fail("GobDecode failed on GobEncode output")
			return
		}
	}
	p, msg := rt.Panics(func() { err = recv.GobDecode(enc) })
	rt.Check(!p, "GobDecode into a used receiver panicked: "+msg)
	if p {
		return
	}
	rt.Check(err == nil, "GobDecode into a used receiver failed")
	if err != nil {
		return
	}
	dwCheckIndex(recv, orig, L+1, "decoded into a used receiver")
	rt.Check(recv.numberOfNodes() == d.numberOfNodes(), "decoded into a used receiver: different node count")
	enc2, err := recv.GobEncode()
	rt.Check(err == nil, "re-encode failed")
	rt.Check(len(enc2) == len(enc0), "decoded into a used receiver: re-encoding has a different length")
	if len(enc2) == len(enc0) {
		for i := range enc2 {
			rt.Check(enc2[i] == enc0[i], "decoded into a used receiver: re-encoding differs")
		}
	}
	rt.Reach("end")
}

func H_c14_reuse_q() { c14Reuse(2, 1) }
func H_c14_reuse_t() { c14Reuse(3, 2) }

func H_c14_roundtrip_q() { c14Roundtrip(3, 2) }
func H_c14_roundtrip_t() { c14Roundtrip(4, 3) }

// c14Wide: a root with B single-byte children (B crosses 127/128/255/256) over a
// symbolic-offset window of the byte range, plus one long chain so that node and
// word counts cross the 1-byte varint boundary.
func c14Wide(B int) {
	off := 0
	if B < 256 {
		off = (256 - B) * rt.Choice("offset", 2) // window at the bottom or the top of the byte range
	}
	var words [][]byte
	for b := 0; b < B; b++ {
		words = append(words, []byte{byte(off + b)})
	}
	d, err := New(words)
	if err != nil {
		rt.Fail("New failed on single-byte words")
		return
	}
	enc, err := d.GobEncode()
	rt.Check(err == nil, "GobEncode failed")
	d2 := new(Dawg)
	p, msg := rt.Panics(func() { err = d2.GobDecode(enc) })
	rt.Check(!p, "GobDecode panicked on a wide node: "+msg)
	if p {
		return
	}
	rt.Check(err == nil, "GobDecode failed on a wide node")
	if err != nil {
		return
	}
	rt.Check(d2.NumberOfWords() == B, "decoded word count wrong")
	probe := []byte{rt.Byte("probe")}
	idx, ok := d2.Lookup(probe)
	in := int(probe[0]) >= off && int(probe[0]) < off+B
	rt.Check(ok == in, "decoded Lookup membership wrong")
	if ok {
		rt.Check(idx == int(probe[0])-off, "decoded Lookup rank wrong")
	}
	rt.Reach("end")
}

func H_c14_wide_q() { c14Wide([]int{127, 128, 129, 256}[rt.Choice("B", 4)]) }
func H_c14_wide_t() { c14Wide([]int{127, 128, 129, 255, 256}[rt.Choice("B", 5)]) }
