package dawg

import (
	rt "github.com/Tom-Johnston/mamba/zzverifrt"
)

// H_selftest_dawg: translator validation on the word lists of dawg/dawg_test.go.
func H_selftest_dawg() {
	lists := [][]string{
		{"cities", "city", "pities", "pity"},
		{"", "a", "ab", "abc", "b", "bc", "c"},
		{"aa", "aab", "aaba", "ab", "abaa", "b", "ba", "baa", "bab"},
		{"tap", "taps", "top", "tops", "tip", "tips", "spit", "spot", "stop", "opts", "post", "pots", "psst"},
	}
	for li, l := range lists {
		// sort the list (the builder needs sorted input)
		for i := 1; i < len(l); i++ {
			for j := i; j > 0 && l[j] < l[j-1]; j-- {
				l[j], l[j-1] = l[j-1], l[j]
			}
		}
		var ws [][]byte
		for _, w := range l {
			ws = append(ws, []byte(w))
		}
		d, err := New(ws)
		rt.Check(err == nil, "selftest: New failed")
		if err != nil {
			return
		}
		rt.Digest("words", d.NumberOfWords())
		rt.Digest("nodes", d.numberOfNodes())
		for _, w := range l {
			idx, ok := d.Lookup([]byte(w))
			rt.Check(ok, "selftest: member not found")
			rt.Digest("rank", idx)
		}
		enc, _ := d.GobEncode()
		h := 0
		for _, b := range enc {
			h = h*131 + int(b)
		}
		rt.Digest("gob", h)
		d2 := new(Dawg)
		rt.Check(d2.GobDecode(enc) == nil, "selftest: GobDecode failed")
		rt.Digest("nodes2", d2.numberOfNodes())
		if li == 3 {
			for _, q := range []string{"t?p", "?o??", "s???", "??"} {
				sol, ids := d.Search(NewPatternSearcher([]byte(q), '?'))
				rt.Digest("pat.n", len(sol))
				for _, id := range ids {
					rt.Digest("pat.id", id)
				}
			}
			for _, q := range []string{"ttps", "post", "p?st", "???"} {
				sol, ids := d.Search(NewAnagramSearcher([]byte(q), '?'))
				rt.Digest("ana.n", len(sol))
				for _, id := range ids {
					rt.Digest("ana.id", id)
				}
			}
		}
	}
	rt.Reach("end")
}
