package dawg

import (
	rt "github.com/Tom-Johnston/mamba/zzverifrt"
)

// c13PatMatch: branch-free "word matches pattern".
func c13PatMatch(w, pat []byte, blank byte) bool {
	if len(w) != len(pat) {
		return false
	}
	r := true
	for i := range w {
		r = rt.And(r, rt.Or(pat[i] == blank, pat[i] == w[i]))
	}
	return r
}

// c13AnaMatch: branch-free "word is an anagram of ana with blanks as wildcards":
// same length and every non-blank letter of ana occurs in w at least as often as in ana.
func c13AnaMatch(w, ana []byte, blank byte) bool {
	if len(w) != len(ana) {
		return false
	}
	r := true
	for i := range ana {
		cm, cw := 0, 0
		for j := range ana {
			cm += rt.B2I(rt.And(ana[j] == ana[i], ana[j] != blank))
		}
		for j := range w {
			cw += rt.B2I(w[j] == ana[i])
		}
		r = rt.And(r, rt.Or(ana[i] == blank, cm <= cw))
	}
	return r
}

// c13CheckResult: solns/ids are exactly the words flagged by want, in order, with ranks.
func c13CheckResult(words [][]byte, want []bool, solns [][]byte, ids []int, what string) {
	rt.Check(len(solns) == len(ids), what+": solns and ids differ in length")
	if len(solns) != len(ids) {
		return
	}
	prev := -1
	for k, id := range ids {
		rt.Check(id > prev, what+": results not in increasing order")
		prev = id
		ok := id >= 0 && id < len(words)
		rt.Check(ok, what+": rank out of range")
		if !ok {
			return
		}
		rt.Check(dwEqF(solns[k], words[id]), what+": returned word is not the word with the returned rank")
		rt.Check(want[id], what+": returned a word that does not match")
	}
	n := 0
	for _, m := range want {
		n += rt.B2I(m)
	}
	rt.Check(n == len(ids), what+": a matching word is missing")
}

func c13Snapshot(ss [][]byte, ids []int) ([][]byte, []int) {
	return dwCopyWords(ss), append([]int(nil), ids...)
}

func c13Same(a [][]byte, ai []int, b [][]byte, bi []int, what string) {
	rt.Check(len(a) == len(b) && len(ai) == len(bi), what+": repeated search returns a different number of results")
	if len(a) != len(b) || len(ai) != len(bi) {
		return
	}
	for k := range a {
		rt.Check(ai[k] == bi[k], what+": repeated search returns different ranks")
		rt.Check(dwEqF(a[k], b[k]), what+": repeated search returns different words")
	}
}

func c13Search(W, L, Q int) { c13SearchM(W, L, Q, -1) }

// c13SearchM: mode -1 = all searcher combinations, else the fixed combination.
func c13SearchM(W, L, Q, fixedMode int) {
	words := dwWords(W, L)
	blank := rt.Byte("blank")
	mode := fixedMode
	if mode < 0 {
		mode = rt.Choice("searchers", 3) // 0 pattern, 1 anagram, 2 both
	}
	var p, a []byte
	if mode == 0 || mode == 2 {
		p = rt.Bytes("pattern", rt.Choice("patlen", Q+1))
	}
	if mode == 1 || mode == 2 {
		a = rt.Bytes("anagram", rt.Choice("analen", Q+1))
	}
	c13Run(words, L, blank, mode, p, a, true)
}

// c13Abc: EVERY set of words of length <= L over the first A letters against EVERY pattern /
// anagram of length <= Q (Q2 when both searchers are used) over those letters and the blank.
func c13Abc(A, L, Q, Q2 int) {
	var all [][]byte
	var gen func(prefix []byte)
	gen = func(prefix []byte) {
		all = append(all, append([]byte{}, prefix...))
		if len(prefix) == L {
			return
		}
		for c := 0; c < A; c++ {
			gen(append(prefix, byte('a'+c)))
		}
	}
	gen(nil)
	var words [][]byte
	for _, w := range all {
		if rt.Choice("in", 2) == 1 {
			words = append(words, w)
		}
	}
	query := func(name string, maxLen int) []byte {
		l := rt.Choice(name+"len", maxLen+1)
		q := make([]byte, l)
		for i := range q {
			c := rt.Choice(name, A+1)
			if c == A {
				q[i] = '?'
			} else {
				q[i] = byte('a' + c)
			}
		}
		return q
	}
	mode := rt.Choice("searchers", 3)
	var p, a []byte
	switch mode {
	case 0:
		p = query("pattern", Q)
	case 1:
		a = query("anagram", Q)
	default:
		p = query("pattern", Q2)
		a = query("anagram", Q2)
	}
	c13Run(words, L, '?', mode, p, a, false)
}

func H_c13_abc_q() { c13Abc(2, 2, 3, 2) }
func H_c13_abc_t() { c13Abc(2, 2, 4, 3) }

func c13Run(words [][]byte, L int, blank byte, mode int, p, a []byte, probe bool) {
	orig := dwCopyWords(words)
	d, err := New(words)
	if err != nil {
		rt.Fail("New failed")
		return
	}
	nodes := d.numberOfNodes()
	want := make([]bool, len(orig))
	for i := range want {
		want[i] = true
	}
	var searchers []Searcher
	var pat *PatternSearcher
	var ana *AnagramSearcher
	var anaIn []byte
	if mode == 0 || mode == 2 {
		p0 := append([]byte(nil), p...)
		pat = NewPatternSearcher(p, blank)
		searchers = append(searchers, pat)
		for i, w := range orig {
			want[i] = rt.And(want[i], c13PatMatch(w, p0, blank))
		}
	}
	if mode == 1 || mode == 2 {
		anaIn = append([]byte(nil), a...)
		ana = NewAnagramSearcher(a, blank)
		searchers = append(searchers, ana)
		for i, w := range orig {
			want[i] = rt.And(want[i], c13AnaMatch(w, anaIn, blank))
		}
		for i := range a {
			rt.Check(a[i] == anaIn[i], "NewAnagramSearcher modified its argument")
		}
	}
	var blanks0 int
	var counts0 []letterCount
	if ana != nil {
		blanks0 = ana.blanks
		counts0 = append([]letterCount(nil), ana.counts...)
	}
	solns, ids := d.Search(searchers...)
	c13CheckResult(orig, want, solns, ids, "Search")
	s1, i1 := c13Snapshot(solns, ids)
	// searchers back in their initial state
	if pat != nil {
		rt.Check(pat.index == 0, "PatternSearcher not back at index 0")
	}
	if ana != nil {
		rt.Check(len(ana.currPath) == 0, "AnagramSearcher path not empty after search")
		rt.Check(ana.blanks == blanks0, "AnagramSearcher blanks not restored")
		rt.Check(len(ana.counts) == len(counts0), "AnagramSearcher counts changed shape")
		// the remaining letters are restored as a multiset: one letter may be spread over several
		// entries (NewAnagramSearcher does not always merge equal letters) and Backstep gives a
		// letter back to the first entry for it, which is behaviourally the same state
		for k := range counts0 {
			before, after := 0, 0
			for q := range counts0 {
				before += rt.IteInt(counts0[q].letter == counts0[k].letter, counts0[q].count, 0)
			}
			for q := range ana.counts {
				after += rt.IteInt(ana.counts[q].letter == counts0[k].letter, ana.counts[q].count, 0)
			}
			rt.Check(before == after, "AnagramSearcher letter counts not restored")
			rt.Check(ana.counts[k].letter == counts0[k].letter, "AnagramSearcher letters changed")
		}
	}
	// the Dawg is unchanged
	rt.Check(d.numberOfNodes() == nodes, "Search changed the node count")
	if probe {
		dwCheckIndex(d, orig, L+1, "after Search")
	} else {
		rt.Check(d.NumberOfWords() == len(orig), "after Search: NumberOfWords wrong")
		for r, w := range orig {
			idx, ok := d.Lookup(append([]byte{}, w...))
			rt.Check(ok && idx == r, "after Search: Lookup of a word changed")
		}
	}
	// repeating the search gives the same result
	solns2, ids2 := d.Search(searchers...)
	c13Same(s1, i1, solns2, ids2, "Search")
	rt.Reach("end")
}

func H_c13_search_q()  { c13Search(2, 2, 2) }
func H_c13_pattern_t() { c13SearchM(3, 3, 3, 0) }
func H_c13_anagram_t() { c13SearchM(2, 3, 3, 1) }

// one word of length <= 3 against an anagram of length <= 3: reaches repeated letters
// ("aab", "aa?") that the two-letter quick bound cannot
func H_c13_anagram3_q() { c13SearchM(1, 3, 3, 1) }
func H_c13_both_t()     { c13SearchM(2, 2, 3, 2) }
