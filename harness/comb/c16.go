package comb

import (
	"math/big"
	"math/bits"

	rt "github.com/Tom-Johnston/mamba/zzverifrt"
)

const c16Coeff = "github.com/Tom-Johnston/mamba/comb.CoeffUint64"

// H_c16_table: the built-in rows (n <= 32) satisfy Pascal's rule and the
// boundary values, through CoeffUint64 itself; Coeffs(n) is Pascal's triangle.
func H_c16_table() {
	for n := uint64(0); n <= 32; n++ {
		rt.Check(CoeffUint64(n, 0) == 1, "C(n,0) != 1")
		rt.Check(CoeffUint64(n, n) == 1, "C(n,n) != 1")
		rt.Check(CoeffUint64(n, n+1) == 0, "C(n,n+1) != 0")
		for k := uint64(1); k <= n && n > 0; k++ {
			rt.Check(CoeffUint64(n, k) == CoeffUint64(n-1, k-1)+CoeffUint64(n-1, k), "Pascal's rule fails in the table")
			rt.Check(CoeffUint64(n, k) == CoeffUint64(n, n-k), "symmetry fails in the table")
		}
	}
	N := 36
	cs := Coeffs(N)
	rt.Check(len(cs) == N+1, "Coeffs: wrong number of rows")
	for m := 0; m <= N; m++ {
		rt.Check(len(cs[m]) == m/2+1, "Coeffs: wrong row length")
		for k := 0; k <= m/2; k++ {
			rt.Check(cs[m][k] == Coeff(m, k), "Coeffs differs from Coeff")
		}
	}
	// Coeff: negative arguments
	p, _ := rt.Panics(func() { Coeff(-1, 0) })
	rt.Check(p, "Coeff(-1,0) must panic")
	rt.Check(Coeff(5, -1) == 0, "Coeff(n,-1) != 0")
	rt.Reach("end")
}

// c16Nowrap: for fixed k and every 64-bit n, CoeffUint64(n,k) either panics
// or no arithmetic operation inside it wraps (the engine's wrap-around watch
// turns every + - * executed inside CoeffUint64 into an obligation).
func c16Nowrap(k uint64) {
	n := rt.Uint64("n")
	rt.Assume(n > 32)
	if k >= 9 && k < uint64(len(maxSizes)) {
		// case split: the admitted range (32, T[k]] is short, enumerate it; one
		// symbolic path covers every n above it
		if rt.ConcreteBool(n <= maxSizes[k]+2) {
			n = uint64(rt.Concrete(int(n)))
		}
	}
	rt.WatchOverflow(c16Coeff)
	var r uint64
	p, _ := rt.Panics(func() { r = CoeffUint64(n, k) })
	if !p && !rt.Symbolic() {
		// native replay: stronger oracle (math/big) decides whether the value is wrong
		want := new(big.Int).Binomial(int64(n), int64(k))
		rt.Check(want.IsUint64() && want.Uint64() == r, "CoeffUint64 returned a wrong (wrapped) value")
	}
	rt.Reach("end")
}

func H_c16_nowrap_lo() {
	k := uint64(rt.Choice("k", 12)) // 0..11
	c16Nowrap(k)
}
func H_c16_nowrap_mid() {
	k := 12 + uint64(rt.Choice("k", 10)) // 12..21
	c16Nowrap(k)
}
func H_c16_nowrap_hi() {
	k := 22 + uint64(rt.Choice("k", 14)) // 22..35
	c16Nowrap(k)
}

// H_c16_sym: symmetric side: n symbolic, k = n - j for small j (k > n/2 reflection)
func H_c16_reflect() {
	j := uint64(rt.Choice("j", 6))
	n := rt.Uint64("n")
	rt.Assume(n > 32)
	rt.WatchOverflow(c16Coeff)
	var a, b uint64
	pa, _ := rt.Panics(func() { a = CoeffUint64(n, n-j) })
	pb, _ := rt.Panics(func() { b = CoeffUint64(n, j) })
	rt.Check(pa == pb, "C(n,n-j) and C(n,j) disagree on refusing")
	if !pa && !pb {
		rt.Check(a == b, "C(n,n-j) != C(n,j)")
	}
	rt.Reach("end")
}

// c16Exact128 computes k*C(n,k) exactly with 128-bit intermediates; ok=false
// when the final product does not fit 64 bits.
func c16LastProduct(n, k uint64) (hi, lo uint64) {
	comb := uint64(1)
	for i := uint64(1); i <= k; i++ {
		h, l := bits.Mul64(comb, n-k+i)
		if i == k {
			return h, l
		}
		rt.Check(h < i, "oracle: intermediate binomial does not fit 64 bits")
		comb, _ = bits.Div64(h, l, i)
	}
	return 0, 1
}

// H_c16_tight: every threshold is the largest possible: at n = T[k] the value
// is returned, and at T[k]+1 the step-by-step product k*C(n,k) no longer fits.
func H_c16_tight() {
	for k := uint64(2); k <= 31; k++ {
		t := maxSizes[k]
		p, _ := rt.Panics(func() { CoeffUint64(t, k) })
		rt.Check(!p, "CoeffUint64 refuses at its own threshold")
		hi, _ := c16LastProduct(t, k)
		rt.Check(hi == 0, "threshold too high: k*C(T[k],k) does not fit uint64")
		if k > 1 {
			hi, _ = c16LastProduct(t+1, k)
			rt.Check(hi != 0, "threshold too low: k*C(T[k]+1,k) still fits uint64 but is refused")
			p, _ = rt.Panics(func() { CoeffUint64(t+1, k) })
			rt.Check(p, "CoeffUint64 does not refuse above its threshold")
		}
	}
	// min(k, n-k) >= 32 is always refused, and rightly: 32*C(64,32) overflows
	hi, _ := c16LastProduct(64, 32)
	rt.Check(hi != 0, "32*C(64,32) fits?")
	p, _ := rt.Panics(func() { CoeffUint64(64, 32) })
	rt.Check(p, "CoeffUint64(64,32) must refuse")
	rt.Reach("end")
}

// c16Pascal: exactness by induction on n through Pascal's rule, n concrete over
// the whole admitted range of k (ranges are short for k >= 9).
func c16Pascal(kLo, kHi uint64, cap uint64) {
	k := kLo + uint64(rt.Choice("k", int(kHi-kLo+1)))
	t := maxSizes[k]
	if t > cap {
		t = cap
	}
	for n := uint64(33); n <= t; n++ {
		if 2*k > n {
			continue
		}
		rt.Check(CoeffUint64(n, k) == CoeffUint64(n-1, k-1)+CoeffUint64(n-1, k), "Pascal's rule fails above the table")
	}
	rt.Reach("end")
}

func H_c16_pascal_q() { c16Pascal(2, 31, 300) }
func H_c16_pascal_t() { c16Pascal(2, 31, 4096) }

// H_c16_coeff: Coeff(int) refuses values above MaxInt and negative n.
func H_c16_coeff() {
	n := rt.Int("n")
	k := rt.IntIn("k", -1, 3)
	var r int
	p, _ := rt.Panics(func() { r = Coeff(n, k) })
	if rt.ConcreteBool(n < 0) {
		rt.Check(p, "Coeff with negative n must panic")
	} else if !p {
		rt.Check(r >= 0, "Coeff returned a negative value")
		if rt.ConcreteBool(k == 1) {
			rt.Check(r == n, "Coeff(n,1) != n")
		}
		if rt.ConcreteBool(k < 0) {
			rt.Check(r == 0, "Coeff(n,-1) != 0")
		}
	}
	rt.Reach("end")
}

// c16Rank: Rank either panics or equals the sum of binomials without wrap.
func c16Rank(K int) { c16RankB(K, 0) }

// c16RankB: with bound > 0 the elements are drawn from [0, bound] (the full-range version of
// the triple case leaves 64-bit products the solvers do not decide in 3 minutes each).
func c16RankB(K, bound int) {
	k := 1 + rt.Choice("k", K)
	if bound > 0 {
		k = K
	}
	c := make([]int, k)
	for i := range c {
		if bound > 0 {
			c[i] = rt.IntIn("c", 0, bound)
		} else {
			c[i] = rt.Int("c")
		}
		rt.Assume(c[i] >= 0)
		if i > 0 {
			rt.Assume(c[i-1] < c[i])
		}
	}
	rt.WatchOverflow(c16Coeff)
	var r int
	p, _ := rt.Panics(func() { r = Rank(c) })
	if !p {
		rt.Check(r >= 0, "Rank returned a negative (wrapped) value")
		// lower bound: rank >= C(c[k-1], k) >= each term
		if k == 1 {
			rt.Check(r == c[0], "Rank({c}) != c")
		}
	}
	rt.Reach("end")
}

func H_c16_rank_q() { c16Rank(2) }
func H_c16_rank_t() { c16RankB(3, 1<<20) }

// H_c16_addovf: the overflow test of addHasOverflowed is bit-precise.
func H_c16_addovf() {
	a, b := rt.Int("a"), rt.Int("b")
	s, ovf := addHasOverflowed(a, b)
	rt.Check(s == a+b, "sum wrong")
	hi, lo := a>>63, b>>63 // sign words
	_ = lo
	// true overflow: signs equal and sign of sum differs
	trueOvf := rt.And((a < 0) == (b < 0), (s < 0) != (a < 0))
	_ = hi
	rt.Check(ovf == trueOvf, "addHasOverflowed disagrees with exact overflow")
	rt.Reach("end")
}

// c16Unrank: bounded inverse and agreement with colex order.
func c16Unrank(R, K, M int) {
	k := 1 + rt.Choice("k", K)
	r := rt.Concrete(rt.IntIn("r", 0, R))
	var u []int
	p, msg := rt.Panics(func() { u = Unrank(r, k) })
	rt.Check(!p, "Unrank panicked: "+msg)
	if p {
		return
	}
	rt.Check(len(u) == k, "Unrank: wrong length")
	for i := range u {
		rt.Check(u[i] >= 0, "Unrank: negative element")
		if i > 0 {
			rt.Check(u[i-1] < u[i], "Unrank: not strictly increasing")
		}
	}
	rt.Check(Rank(u) == r, "Rank(Unrank(r,k)) != r")
	rt.Reach("end")
}

func H_c16_unrank_q() { c16Unrank(60, 4, 0) }
func H_c16_unrank_t() { c16Unrank(300, 5, 0) }

// c16UnrankWin: ranks in a symbolic window [2^e - w, 2^e + w] around a large power of
// two: the real loop runs (about (k!*r)^(1/k) iterations on concrete values) and
// only the comparisons with the rank are symbolic.  Obligations: Unrank returns
// (instruction budget = termination), the result is strictly increasing and
// non-negative, nothing inside Unrank wraps, and Rank inverts it unless it refuses.
func c16UnrankWin(k int, e uint, w int) {
	base := 1 << e
	r := rt.IntIn("r", base-w, base-1+w)
	rt.WatchOverflow("github.com/Tom-Johnston/mamba/comb.Unrank")
	u := Unrank(r, k)
	rt.Check(len(u) == k, "Unrank: wrong length")
	for i := range u {
		rt.Check(u[i] >= 0, "Unrank: negative element")
		if i > 0 {
			rt.Check(u[i-1] < u[i], "Unrank: not strictly increasing")
		}
	}
	var back int
	p, _ := rt.Panics(func() { back = Rank(u) })
	if !p {
		rt.Check(back == r, "Rank(Unrank(r,k)) != r")
	}
	if !rt.Symbolic() {
		// native replay: exact check with math/big even where Rank refuses
		sum := new(big.Int)
		for i, c := range u {
			sum.Add(sum, new(big.Int).Binomial(int64(c), int64(i+1)))
		}
		rt.Check(sum.IsInt64() && sum.Int64() == int64(r), "sum of C(c_i, i+1) differs from the rank")
	}
	rt.Reach("end")
}

func H_c16_unrankwin_q() {
	// (k, e): about (k! * 2^e)^(1/k) <= 4e5 loop iterations each
	c := rt.Choice("case", 3)
	k := []int{3, 4, 5}[c]
	e := []uint{52, 62, 62}[c]
	c16UnrankWin(k, e, 4)
}

func H_c16_unrankwin_t() {
	c := rt.Choice("case", 8)
	k := []int{2, 2, 3, 3, 4, 5, 6, 7}[c]
	e := []uint{30, 38, 40, 52, 62, 62, 62, 62}[c]
	c16UnrankWin(k, e, 64)
}

// H_c16_unrankmax: ranks in the top window [MaxInt-8, MaxInt] for large k (few loop iterations,
// binomials close to the int range).
func c16UnrankMax(ks []int, w int) {
	k := ks[rt.Choice("k", len(ks))]
	const maxI = int(^uint(0) >> 1)
	r := rt.IntIn("r", maxI-w, maxI)
	rt.WatchOverflow("github.com/Tom-Johnston/mamba/comb.Unrank")
	u := Unrank(r, k)
	rt.Check(len(u) == k, "Unrank: wrong length")
	for i := range u {
		rt.Check(u[i] >= 0, "Unrank: negative element")
		if i > 0 {
			rt.Check(u[i-1] < u[i], "Unrank: not strictly increasing")
		}
	}
	var back int
	p, _ := rt.Panics(func() { back = Rank(u) })
	if !p {
		rt.Check(back == r, "Rank(Unrank(r,k)) != r")
	}
	if !rt.Symbolic() {
		sum := new(big.Int)
		for i, c := range u {
			sum.Add(sum, new(big.Int).Binomial(int64(c), int64(i+1)))
		}
		rt.Check(sum.IsInt64() && sum.Int64() == int64(r), "sum of C(c_i, i+1) differs from the rank")
	}
	rt.Reach("end")
}

func H_c16_unrankmax_q() { c16UnrankMax([]int{8, 12, 20, 31, 40, 62}, 8) }
func H_c16_unrankmax_t() {
	c16UnrankMax([]int{6, 7, 8, 9, 10, 12, 16, 20, 25, 31, 32, 33, 40, 50, 62, 63, 64}, 64)
}
