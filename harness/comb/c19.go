package comb

import (
	rt "github.com/Tom-Johnston/mamba/zzverifrt"
)

// H_c19_comb: Coeff / Rank / Unrank from two actors: the shared tables are only read.
func H_c19_comb() {
	n := rt.Concrete(rt.IntIn("n", 0, 70))
	k := rt.Concrete(rt.IntIn("k", 0, 4))
	r := rt.Concrete(rt.IntIn("r", 0, 30))
	rt.ActorBegin(1)
	c := Coeff(n, k)
	u := Unrank(r, 3)
	rk := Rank(u)
	cs := Coeffs(6)
	rt.ActorEnd()
	rt.ActorBegin(2)
	c2 := Coeff(n, k)
	u2 := Unrank(r, 3)
	rk2 := Rank(u2)
	cs2 := Coeffs(6)
	rt.ActorEnd()
	rt.FootprintCheck()
	// solo results are computed after the actors so that a lazily filled cache is still cold when they run
	soloC := Coeff(n, k)
	soloU := Unrank(r, 3)
	_, _ = cs, cs2
	rt.Check(c == soloC && c2 == soloC && rk == r && rk2 == r, "results differ from a solo run")
	for i := range soloU {
		rt.Check(u[i] == soloU[i] && u2[i] == soloU[i], "Unrank differs from a solo run")
	}
	rt.Reach("end")
}
