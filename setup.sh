#!/bin/sh
# Builds the gosymx engine from files on disk only (offline).
cd "$(dirname "$0")" || exit 2
export GOFLAGS=-mod=mod GOPROXY=off GOSUMDB=off GOTOOLCHAIN=local GOWORK=off
mkdir -p bin out evidence
(cd engine && go build -o ../bin/gosymx ./cmd/gosymx) || exit 2
echo "gosymx built"
