#!/bin/sh
# ./seed_eval.sh <property-id> <seed-name> <out-dir-of-agent> [tier]
# Confirms a seeded change (compiles, suite green, demo fails with / passes without),
# stores it under seeded/<name>/ and runs the property's check against it.
id="$1"; name="$2"; src="$3"; tier="${4:-quick}"; wtsrc="${5:-/tmp/seed_$1}"
export GOFLAGS=-mod=mod GOPROXY=off GOSUMDB=off GOTOOLCHAIN=local GOWORK=off
cd /verif || exit 2
wt=/tmp/sv_$name
git -C /repo worktree remove --force $wt 2>/dev/null
git -C /repo worktree add -q $wt HEAD || exit 2
demo=$(ls $src/*_test.go | head -1)
pkgdir=$(grep -l "" /dev/null; cd $wtsrc 2>/dev/null && git status --short | grep '_test.go' | awk '{print $2}' | head -1 | xargs dirname)
[ -z "$pkgdir" ] && pkgdir=$(grep -m1 '^+++ b/' $src/patch.diff | sed 's|+++ b/||' | xargs dirname)
res="confirmed"
( cd $wt && git apply $src/patch.diff ) || res="patch does not apply"
if [ "$res" = confirmed ]; then
  ( cd $wt && go build ./... ) || res="does not build"
  ( cd $wt && go test -count=1 ./... >/tmp/sv_$name.suite 2>&1 ) || res="suite fails"
  cp $demo $wt/$pkgdir/
  ( cd $wt && go test -count=1 -run . ./$pkgdir >/tmp/sv_$name.with 2>&1 ) && res="demo passes WITH the change"
  ( cd $wt && git apply -R $src/patch.diff && go test -count=1 -run . ./$pkgdir >/tmp/sv_$name.without 2>&1 ) || res="demo fails WITHOUT the change"
fi
echo "seed $name ($id): $res (demo pkg $pkgdir)"
if [ "$res" != confirmed ]; then git -C /repo worktree remove --force $wt; exit 3; fi
mkdir -p seeded/$name
cp $src/patch.diff seeded/$name/patch.diff
cp $demo seeded/$name/
cp $src/notes.md seeded/$name/notes.md 2>/dev/null
# run the check against the seeded tree: an isolated copy (scratch worktree of /repo with the
# patch applied, scratch VERIF_DIR) so that /repo and /verif/evidence stay untouched and
# other runs against /repo are not disturbed
rm -f $wt/$pkgdir/$(basename $demo)
( cd $wt && git apply $src/patch.diff ) || exit 2
vd=/tmp/svd_$name
rm -rf $vd; mkdir -p $vd/out $vd/evidence
cp -r harness known_findings.json $vd/
[ -x bin/gosymx ] || ./setup.sh >/dev/null 2>&1
VERIF_DIR=$vd VERIF_REPO=$wt ./bin/gosymx check $id $tier > out/seed_$name.log 2>&1
rc=$?
rm -rf $vd
git -C /repo worktree remove --force $wt
viol=$(grep -m1 "^VIOLATION" out/seed_$name.log)
echo "check $id $tier on seed $name: exit $rc ${viol}"
grep -h "harness=\|native outcome\|BROKEN\|DISCREPANCY" out/seed_$name.log | head -4
python3 - "$id" "$name" "$rc" "$tier" "$pkgdir" <<'PY'
import json,sys,os,re
id,name,rc,tier,pkg=sys.argv[1:6]
log=open('/verif/out/seed_%s.log'%name).read()
m=re.search(r'VIOLATION.*\n\s*harness=(\S+): (.*)\n',log)
notes=''
try: notes=open('/verif/seeded/%s/notes.md'%name).read()
except Exception: pass
meta={"property":id,"seed":name,"demo_package":pkg,
 "confirmed":"patch applies to /repo HEAD, go build ./... ok, go test ./... green with the change, demonstration test fails with the change and passes without it (seed_eval.sh, scratch worktree)",
 "needs":notes[:1500],
 "check_run":"gosymx check %s %s against a scratch worktree of /repo HEAD with the patch applied (VERIF_REPO), removed afterwards"%(id,tier),
 "check_exit":int(rc),"caught":int(rc)==1,
 "caught_by":(m.group(1)+": "+m.group(2)) if m else None}
json.dump(meta,open('/verif/seeded/%s/meta.json'%name,'w'),indent=1)
PY
