#!/usr/bin/env python3
"""Regenerates section 4a of DESIGN.md from harness/registry.json."""
import json, os
here = os.path.dirname(os.path.abspath(__file__))
reg = json.load(open(os.path.join(here, 'harness/registry.json')))
lines = ['## 4a. Registered harnesses (generated from harness/registry.json)', '',
         'Section 4 below is the original plan; the table here is what the checks run. `q` = quick tier, `t` = thorough tier;',
         'options: solver (default z3), `merge` = guarded merging on, `foot` = footprint log on, `x:<solver>` = every query cross-checked with a second solver.', '']
for pid in sorted(reg):
    ps = reg[pid]
    lines += ['**%s**' % pid, '', '| harness | tier | options | bound |', '|---|---|---|---|']
    for h in ps['harnesses']:
        t = ''.join('q' if x == 'quick' else 't' for x in h['tiers'])
        opts = []
        if h.get('solver'): opts.append(h['solver'])
        if h.get('merge'): opts.append('merge')
        if h.get('footprint'): opts.append('foot')
        if h.get('cross'): opts.append('x:' + h['cross'])
        lines.append('| `%s` | %s | %s | %s |' % (h['name'], t, ' '.join(opts), h['bound'].replace('|', '/')))
    lines.append('')
    if ps.get('assumptions'): lines.append('Assumptions: ' + '; '.join(ps['assumptions']) + '.')
    if ps.get('outside_bound'): lines.append('Outside the claim: ' + '; '.join(ps['outside_bound']) + '.')
    if ps.get('stubs'): lines.append('Stubs: ' + '; '.join(ps['stubs']) + '.')
    lines.append('')
block = '\n'.join(lines)
p = os.path.join(here, 'DESIGN.md')
s = open(p).read()
a = s.find('## 4a. Registered harnesses')
b = s.find('## 4. Per-property designs')
sep = '\n---------------------------------------------------------------------------\n\n'
if a >= 0:
    s = s[:a] + block + sep + s[b:]
else:
    s = s[:b] + block + sep + s[b:]
open(p, 'w').write(s)
print('DESIGN.md section 4a regenerated')
