#!/usr/bin/env python3
# regenerates section 4a of DESIGN.md from harness/registry.json (same code as used when the section was first written)
